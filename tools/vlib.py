"""Common machinery of the /verif checks.

One check = one property.  A check has two halves that must both pass:
  (a) the Lean gate: regenerate Gen/*.lean from /repo, build (in place when nothing
      changed, in a private copy otherwise), audit sources and axioms of the
      property's theorems;
  (b) the tie: the real code and the Lean model run on the same inputs
      (correspondence), and every real-code observation is judged by a direct,
      model-independent oracle (which doubles as the failing-input search).
Verdict policy: see DESIGN.md §2.3.
"""
import atexit
import hashlib
import json
import os
import random
import re
import shutil
import subprocess
import sys
import tempfile
import time
from pathlib import Path

VERIF = Path(__file__).resolve().parent.parent
REPO = Path(os.environ.get('CVISE_REPO', '/repo'))
LEAN = VERIF / 'lean'
PY = '/venv/bin/python'
ALLOWED_AXIOMS = {'propext', 'Classical.choice', 'Quot.sound'}
FORBIDDEN = re.compile(r'\bsorry\b|\badmit\b|^axiom |native_decide|bv_decide|implemented_by|\bunsafe |maxHeartbeats 0', re.M)

TRUSTED_BASE = [
    "Lean 4.33.0 kernel (leanchecker re-check in the thorough tier)",
    "axioms: subset of {propext, Classical.choice, Quot.sound}; no native_decide, no bv_decide, no sorry, no user axioms (audited on every run)",
    "tools/gen_model.py (translator /repo -> lean/Cvise/Gen)",
    "hand-written Lean models, tied to /repo only by the correspondence harness of this check",
]


def strip_lean_comments(src):
    # remove /- ... -/ (nested) and -- line comments
    out = []
    i = 0
    depth = 0
    n = len(src)
    while i < n:
        if src.startswith('/-', i):
            depth += 1
            i += 2
        elif depth and src.startswith('-/', i):
            depth -= 1
            i += 2
        elif depth:
            i += 1
        elif src.startswith('--', i):
            j = src.find('\n', i)
            i = n if j < 0 else j
        else:
            out.append(src[i])
            i += 1
    return ''.join(out)


class ToolTrouble(Exception):
    pass


class Ctx:
    def __init__(self, prop, tier, seed, replay=None):
        self.prop = prop
        self.tier = tier
        self.seed = seed
        self.replay = replay
        self.t0 = time.time()
        self.rng = random.Random(seed)
        self.scratch = Path(tempfile.mkdtemp(prefix='cvise-verif-'))
        atexit.register(self.cleanup)
        self.lean_root = LEAN
        self.gate = None
        self.violations = []      # (signature, text, replay-path, nofail)
        self.known_hits = []
        self.cov = {'evaluations': 0, 'distinct_nontrivial': 0, 'samples': []}
        self.assumptions = []
        self.notes = {}
        self._drv = None
        self.known = load_known()
        self.distinct = set()

    # ------------------------------------------------------------------ misc
    def cleanup(self):
        shutil.rmtree(self.scratch, ignore_errors=True)

    def budget_left(self, total):
        return total - (time.time() - self.t0)

    def sample(self, obj, cap=6):
        if len(self.cov['samples']) < cap:
            self.cov['samples'].append(obj)

    def count(self, n=1):
        self.cov['evaluations'] += n

    def nontrivial(self, key):
        self.distinct.add(key if isinstance(key, (str, int, tuple)) else json.dumps(key, sort_keys=True))

    # ------------------------------------------------------------- Lean gate
    def lean_gate(self, obligations):
        """obligations: list of fully qualified theorem names of this property.
        Returns dict(ok, reason, detail, axioms)."""
        from gen_model import generate
        g = {'ok': True, 'reason': '', 'detail': '', 'axioms': {}, 'regen': 'identical', 'where': 'in-place'}
        self.gate = g
        # the modules this property's obligations live in: its own Props file plus the Props files of other properties it
        # cites (everything else an obligation needs is imported by those).  Only these are built and audited, so that a
        # proof of another property that no longer checks does not take this check down with it.
        mods = sorted({'Cvise.Props.' + self.prop} | {'Cvise.Props.' + o.split('.')[1] for o in obligations
                                                       if re.match(r'Cvise\.C\d\d\.', o)})
        g['modules'] = mods
        try:
            gen, stale = generate(REPO)
        except Exception as e:  # translator met something it cannot read
            g.update(ok=False, reason='translator', detail=f'gen_model failed: {e!r}')
            return g
        if stale:
            g['regen_stale'] = stale
        same = True
        for name, content in gen.items():
            p = LEAN / 'Cvise' / 'Gen' / name
            if not p.exists() or p.read_text() != content:
                same = False
        uptodate = False
        if same:
            r = subprocess.run(['lake', 'build', '--no-build', 'Cvise', 'drv'], cwd=LEAN, capture_output=True, text=True)
            uptodate = r.returncode == 0
        if not (same and uptodate):
            g['regen'] = 'identical' if same else 'changed'
            g['where'] = 'private-copy'
            root = self.scratch / 'lean'
            shutil.copytree(LEAN, root, symlinks=True)
            for name, content in gen.items():
                (root / 'Cvise' / 'Gen' / name).write_text(content)
            self.lean_root = root
            r = subprocess.run(['lake', 'build', 'drv'], cwd=root, capture_output=True, text=True)
            if r.returncode != 0:
                g.update(ok=False, reason='model-build', detail=tail_errors(r.stdout + r.stderr, root))
                # fall back to the committed model for the search
                self.lean_root = LEAN
                return g
            r = subprocess.run(['lake', 'build'] + mods, cwd=root, capture_output=True, text=True)
            if r.returncode != 0:
                g.update(ok=False, reason='proof-build', detail=tail_errors(r.stdout + r.stderr, root))
                return g
        # source audit
        bad = []
        for f in sorted((self.lean_root / 'Cvise').rglob('*.lean')) + [self.lean_root / 'Main.lean']:
            src = strip_lean_comments(f.read_text())
            for m in FORBIDDEN.finditer(src):
                bad.append(f'{f.relative_to(self.lean_root)}: {m.group(0).strip()}')
        if bad:
            g.update(ok=False, reason='source-audit', detail='; '.join(bad[:10]))
            return g
        # axiom audit
        audit = self.scratch / 'Audit.lean'
        audit.write_text(''.join(f'import {m}\n' for m in mods) + ''.join(f'#print axioms {o}\n' for o in obligations))
        r = subprocess.run(['lake', 'env', 'lean', str(audit)], cwd=self.lean_root, capture_output=True, text=True)
        out = r.stdout + r.stderr
        for o in obligations:
            m = re.search(r"'" + re.escape(o) + r"' (does not depend on any axioms|depends on axioms: \[([^\]]*)\])", out)
            if not m:
                g['ok'] = False
                g['reason'] = 'axiom-audit'
                g['detail'] += f'theorem {o} missing or not checked; '
                continue
            ax = [a.strip() for a in (m.group(2) or '').replace('\n', ' ').split(',') if a.strip()]
            g['axioms'][o] = ax
            extra = set(ax) - ALLOWED_AXIOMS
            if extra:
                g['ok'] = False
                g['reason'] = 'axiom-audit'
                g['detail'] += f'{o} uses {sorted(extra)}; '
        if self.tier == 'thorough' and g['ok'] and os.environ.get('VERIF_NO_LEANCHECKER') != '1':
            mods = sorted({'Cvise.Props.' + self.prop})
            r = subprocess.run(['lake', 'env', 'leanchecker'] + mods, cwd=self.lean_root, capture_output=True, text=True)
            g['leanchecker'] = 'ok' if r.returncode == 0 else 'failed'
            if r.returncode != 0:
                g.update(ok=False, reason='leanchecker', detail=(r.stdout + r.stderr)[-600:])
        return g

    # ----------------------------------------------------------- model driver
    def drv_path(self):
        p = self.lean_root / '.lake' / 'build' / 'bin' / 'drv'
        if not p.exists():
            p = LEAN / '.lake' / 'build' / 'bin' / 'drv'
        if not p.exists():
            raise ToolTrouble('model driver not built (run setup_cmd)')
        return p

    def model(self, lines):
        """Run the Lean model on protocol lines; returns the list of output lines."""
        if not lines:
            return []
        inp = '\n'.join(lines) + '\n'
        r = subprocess.run([str(self.drv_path())], input=inp, capture_output=True, text=True)
        if r.returncode != 0:
            raise ToolTrouble('model driver crashed: ' + r.stderr[-300:])
        out = r.stdout.split('\n')
        if out and out[-1] == '':
            out.pop()
        if len(out) != len(lines):
            raise ToolTrouble(f'model driver answered {len(out)} lines for {len(lines)}')
        return out

    # ------------------------------------------------------------- verdicts
    def write_replay(self, obj):
        d = Path(os.environ.get('VERIF_EVIDENCE_DIR', VERIF / 'evidence')) / 'replay'
        d.mkdir(parents=True, exist_ok=True)
        body = json.dumps(obj, indent=1, sort_keys=True, default=str)
        h = hashlib.sha1(body.encode()).hexdigest()[:10]
        p = d / f'{self.prop}-{h}.json'
        p.write_text(body)
        return p

    def report(self, signature, text, replay_obj, nofail=False):
        """A property failure on a concrete input (or, with nofail, a broken proof/tie)."""
        for k in self.known:
            if k['kind'] == 'known' and k['property'] == self.prop and k['key'] == signature:
                if signature not in [h[0] for h in self.known_hits]:
                    self.known_hits.append((signature, k['text']))
                return 'known'
        text = text if len(text) <= 400 else text[:400] + '…'
        if any(v[0] == signature for v in self.violations):
            return 'violation'
        replay_obj = dict(replay_obj)
        replay_obj.setdefault('property', self.prop)
        replay_obj.setdefault('signature', signature)
        replay_obj.setdefault('what', text)
        replay_obj.setdefault('seed', self.seed)
        p = self.write_replay(replay_obj)
        self.violations.append((signature, text, str(p), nofail))
        return 'violation'

    def finish(self, level='proof', obligations=None, rule='', extra=None):
        g = self.gate or {}
        obligations = obligations or []
        discharged = len([o for o in obligations if o in g.get('axioms', {}) and not (set(g['axioms'][o]) - ALLOWED_AXIOMS)]) if g.get('ok') else 0
        self.cov['distinct_nontrivial'] = len(self.distinct)
        self.cov['rule'] = rule
        self.cov['obligations'] = len(obligations)
        self.cov['discharged'] = discharged
        self.cov['checker_cmd'] = 'lake build Cvise drv && lake env lean Audit.lean (#print axioms per theorem)' + (' && lake env leanchecker Cvise.Props.' + self.prop if self.tier == 'thorough' else '')
        self.cov['trusted_base'] = TRUSTED_BASE
        self.cov['theorems'] = g.get('axioms', {})
        self.cov['lean_gate'] = {k: v for k, v in g.items() if k != 'axioms'}
        self.cov['known_findings_hit'] = [h[0] for h in self.known_hits]
        if extra:
            self.cov.update(extra)
        if self.notes and 'notes' not in self.cov:
            self.cov['notes'] = self.notes
        ev = {
            'property_id': self.prop,
            'tier': self.tier,
            'seed': self.seed,
            'level': level,
            'coverage': self.cov,
            'assumptions': self.assumptions,
            'wall_s': round(time.time() - self.t0, 2),
            'violations': len(self.violations),
        }
        evdir = Path(os.environ.get('VERIF_EVIDENCE_DIR', VERIF / 'evidence'))     # mutation experiments write elsewhere
        evdir.mkdir(parents=True, exist_ok=True)
        (evdir / f'{self.prop}.json').write_text(json.dumps(ev, indent=1, default=str) + '\n')
        for sig, text in self.known_hits:
            print(f'KNOWN-FINDING: property={self.prop} {sig}: {text}')
        for sig, text, path, nofail in self.violations:
            print(f'# {sig}: {text}')
            print(f'VIOLATION property={self.prop} replay={path}' + (' no-failing-input-found' if nofail else ''))
        sys.stdout.flush()
        return 1 if self.violations else 0


def tail_errors(out, root=None):
    lines = [l for l in out.split('\n') if l.startswith('error') or 'error:' in l]
    named = []
    for l in lines:
        m = re.match(r'error: (\S+\.lean):(\d+):\d+:', l)
        if m:
            for base in ([root] if root else []) + [LEAN]:
                f = Path(base) / m.group(1)
                if f.exists():
                    src = f.read_text().split('\n')[:int(m.group(2))]
                    for k in range(len(src) - 1, -1, -1):
                        mm = re.match(r'\s*(?:private |protected )?(?:theorem|lemma|def|example|instance)\s+(\S+)', src[k])
                        if mm:
                            named.append(f'{m.group(1)}: {mm.group(1)}')
                            break
                    break
    head = ('fails in: ' + ', '.join(dict.fromkeys(named)) + '\n') if named else ''
    return head + ('\n'.join(lines[:12])[-1500:] or out[-800:])


def load_known():
    p = VERIF / 'known_findings.txt'
    res = []
    if not p.exists():
        return res
    for line in p.read_text().split('\n'):
        line = line.strip()
        if not line or line.startswith('#'):
            continue
        m = re.match(r'known: property=(C\d+) key=(\S+) (.*)', line)
        if m:
            res.append({'kind': 'known', 'property': m.group(1), 'key': m.group(2), 'text': m.group(3)})
            continue
        m = re.match(r'fixed: property=(C\d+) (\S+) (.*)', line)
        if m:
            res.append({'kind': 'fixed', 'property': m.group(1), 'commit': m.group(2), 'text': m.group(3)})
    return res


def enc_text(s):
    """text -> protocol token: comma separated code points, '-' for empty"""
    return ','.join(str(ord(c)) for c in s) if s else '-'


def dec_text(tok):
    return '' if tok == '-' else ''.join(chr(int(x)) for x in tok.split(','))


def enc_list(l):
    return ','.join(str(x) for x in l) if l else '-'


def fresh_dir(ctx, name='w'):
    d = Path(tempfile.mkdtemp(prefix=name + '-', dir=ctx.scratch))
    return d


def conclude(ctx, diffs, search=None):
    """Verdict step 5 of DESIGN §2.3.  `diffs`: list of dicts describing model/code disagreements.
    `search`: callable(budget_seconds) that runs the deeper failing-input search and reports through ctx.report."""
    g = ctx.gate or {'ok': True}
    broken = (not g.get('ok', True)) or bool(diffs)
    real = [v for v in ctx.violations if not v[3]]
    if broken and not real:
        if search is not None:
            try:
                search(60 if ctx.tier == 'quick' else 600)
            except ToolTrouble:
                raise
            real = [v for v in ctx.violations if not v[3]]
        if not real:
            if not g.get('ok', True):
                ctx.report('broken:' + g.get('reason', 'lean'), 'Lean gate no longer checks: ' + g.get('reason', ''),
                           {'broken': 'lean-gate', 'reason': g.get('reason'), 'detail': g.get('detail'),
                            'regen': g.get('regen'), 'note': 'no failing input found within the search budget'}, nofail=True)
            if diffs:
                ctx.report('broken:correspondence', f'model and code disagree on {len(diffs)} input(s)',
                           {'broken': 'correspondence', 'first': diffs[0], 'count': len(diffs),
                            'note': 'the direct oracle held on every explored input; no failing input found'}, nofail=True)
    ctx.cov['correspondence_diffs'] = len(diffs)
