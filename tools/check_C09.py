"""C09 — failing, hanging or crashing tests and tools are never accepted, never wedge."""
import json

from vlib import conclude
import drvlib as D

OBLIGATIONS = ['Cvise.C09.accept_requires_ok0', 'Cvise.C09.accept_pure', 'Cvise.C09.loop_sound', 'Cvise.C09.bug_dirs_step',
               'Cvise.C09.extra_dirs_step', 'Cvise.D.roundLoop_sound', 'Cvise.D.wfs_sound', 'Cvise.C09.timeouts_end_the_round',
               'Cvise.C09.shipped_max_timeouts', 'Cvise.C09.report_dirs_within_limits', 'Cvise.C09.pass_run_completes_under_faults']


def oracle(scen, obs):
    sig = D.oracle_C09(scen, obs)
    if sig:
        return sig
    # the reduction carries on and completes: only C-Vise's own errors may end it
    if obs['outcome'] not in ('ok', 'ZeroSizeError', 'PassBugError'):
        if obs['outcome'] == 'ForeignError' and any(v == 'foreign' for v in scen.get('faults', {}).values()):
            return None          # an exception that is not a timeout is re-raised by design (scripted here on purpose)
        if obs['outcome'] == 'AssertionError' and any(v == 'broken' for v in scen.get('faults', {}).values()):
            # `broken` injects "run_test returned None" directly; the real cause of that (undecodable output, F12) is
            # exercised with a real script in the real-pool part below, so the injected variant is not judged
            return None
        if obs['outcome'] == 'AssertionError' and len(scen['files']) > 1:
            return 'growth-bailout-leaves-futures'       # F3, property C08
        if obs['outcome'] == 'FileNotFoundError' and scen['cfg'].get('alsoInteresting') is not None:
            return 'also-interesting-then-give-up-report'
        return 'reduction-dies-with-' + obs['outcome']
    return None


def oracle_timeouts(scen, obs):
    """a stream of timeouts ends the round after MAX_TIMEOUTS of them: once the scans of a round have seen that many
    timed-out candidates done, no further candidate of the round is started"""
    maxt = scen.get('consts', {}).get('MAX_TIMEOUTS', 20)
    faults = scen.get('faults', {})
    tset = {tuple(map(int, k.split('.'))) for k, v in faults.items() if v == 'timeout'}
    started = {}
    for rid, n in obs.get('scheduled', []):
        started[rid] = max(started.get(rid, 0), n)
    seen = {}
    for key, done in sorted(obs.get('played', {}).items(), key=lambda kv: tuple(map(int, kv[0].split('.')))):
        rid, t = map(int, key.split('.'))
        s = seen.setdefault(rid, set())
        for i in done:
            if (rid, i + 1) in tset:
                s.add(i)
        # a scan only reaches the timeouts that precede the first accepted/quitting candidate; count conservatively:
        # only rounds without any non-timeout completion before are judged
        others = [i for i in done if (rid, i + 1) not in tset]
        if not others and len(s) >= maxt and started.get(rid, 0) > t:
            return 'round-continues-after-max-timeouts'
    return None


def helper_part(ctx):
    """helper programs that fail, or die from a signal, after having produced output: the pass must not report the
    candidate as OK, and (for the passes that copy the helper's output over the file) must leave the file alone"""
    import os
    import shutil
    import tempfile
    from pathlib import Path
    from vlib import VERIF
    from cvise.passes.abstract import PassResult, ProcessEventNotifier
    from cvise.passes.indent import IndentPass
    from cvise.passes.clex import ClexPass
    from cvise.passes.clang import ClangPass
    tool = str(VERIF / 'tools' / 'standins' / 'failing_helper')
    probes = [('indent', lambda: IndentPass('regular', {'clang-format': tool}), 'inplace', {0}, 0),
              ('indent-final', lambda: IndentPass('final', {'clang-format': tool}), 'inplace', {0}, 0),
              ('clex', lambda: ClexPass('rm-toks-1', {'clex': tool}), 'stdout', {51}, 0),
              ('clang', lambda: ClangPass('remove-unused-function', {'clang_delta': tool}), 'stdout', {0}, 1)]
    codes = [0, 1, 2, 51, 71, 255, -9, -11, -6, -15]
    for name, mk, mode, okcodes, state0 in probes:
        for code in codes:
            d = Path(tempfile.mkdtemp(prefix='helper-', dir=ctx.scratch))
            try:
                f = d / 'a.c'
                before = 'int  a ;\nint b;\n'
                f.write_text(before)
                (d / 'scen.json').write_text(json.dumps({'mode': mode, 'text': 'int a;\n', 'code': code}))
                os.environ['HELPER_SCEN'] = str(d / 'scen.json')
                p = mk()
                p.user_clang_delta_std = None
                st = p.new(str(f))
                try:
                    res, _ = p.transform(str(f), st if st is not None else state0, ProcessEventNotifier(None))
                except Exception as e:  # noqa
                    ctx.report(f'pass-raises-on-failing-helper:{name}', f'{name}: helper status {code}: {type(e).__name__}: {e}', {'kind': 'helper', 'pass': name, 'code': code})
                    continue
                after = f.read_text()
                ctx.count()
                sc = {'kind': 'helper', 'pass': name, 'code': code}
                if code not in okcodes and res == PassResult.OK:
                    ctx.report(f'failed-helper-run-reported-OK:{name}', f'{name}: the helper ended with status {code} after writing output, transform returned OK (the candidate would be tested and could be committed)', sc)
                elif code not in okcodes and mode == 'stdout' and after != before:
                    ctx.report(f'output-of-failed-helper-used:{name}', f'{name}: helper status {code}, file rewritten', sc)
                elif code in okcodes and res != PassResult.OK:
                    ctx.report(f'successful-helper-run-not-OK:{name}', f'{name}: helper status {code}, result {res}', sc)
                left = sorted(x.name for x in d.iterdir() if x.name not in ('a.c', 'scen.json'))
                if left:
                    ctx.report(f'scratch-file-left-by-failing-helper-run:{name}', f'{name}: helper status {code}: {left}', sc)
                ctx.nontrivial(('helper', name, code))
            finally:
                os.environ.pop('HELPER_SCEN', None)
                shutil.rmtree(d, ignore_errors=True)


def nontriv(scen, obs):
    if scen.get('faults') and obs['played']:
        return D.scen_key(scen)
    return None


def scens(ctx, n):
    bias = {'p_contract': 0.0, 'p_faults': 0.95, 'p_small_consts': 0.6, 'files': [1, 1, 2], 'p_endless': 0.06,
            'fault_kinds': ['timeout', 'timeout', 'timeout', 7, -9, 1, 'broken', 'foreign', 0]}
    return [D.gen_scenario(ctx.rng, bias) for _ in range(n)]


def timeout_scens(ctx, n):
    """streams of timeouts: several adjacent candidates time out and are seen by the same scan"""
    out = []
    for _ in range(n):
        s = D.gen_scenario(ctx.rng, {'p_contract': 0.0, 'p_faults': 0.0, 'files': [1], 'max_states': 6, 'max_passes': 1, 'p_small_consts': 0.0})
        s['consts'] = {'MAX_TIMEOUTS': ctx.rng.choice([2, 3, 4]), 'MAX_EXTRA_DIRS': 25000}
        s['faults'] = {f'0.{i}': 'timeout' for i in range(1, 8)}
        s['N'] = ctx.rng.choice([2, 3, 4, 6])
        s['p_done'] = ctx.rng.choice([0.0, 1.0, 1.0, 0.5])
        s['cfg'] = {'cacheOn': False}
        out.append(s)
    return out


def hang_then_pass(rng):
    """one round in which an earlier candidate hangs past the timeout and a later one is the only interesting one: the
    reduction carries on with the remaining candidates, so that later candidate must be committed"""
    m = rng.randint(2, 5)                    # candidates of the single round, states 0 … m-1
    star = rng.randint(1, m - 1)             # the interesting one (0-based), after at least one hanging candidate
    hang = sorted(rng.sample(range(star), rng.randint(1, star)))
    texts = ['x' * (m + 3)] + ['y' * (j + 1) for j in range(m)]          # content 0 is the input, j+1 the candidate of state j
    p = {'name': 'p0', 'maxT': None, 'new': {'0': 0}, 'adv': {f'0.{j}': j + 1 for j in range(m - 1)}, 'aos': {},
         'tr': {f'0.{j}': ['OK', j + 1, j] for j in range(m)}}
    n = rng.choice([1, 2, m, m + 1])
    return {'texts': texts, 'files': ['a.c'], 'disk': [0], 'passes': [p], 'groups': {'first': [], 'main': [0], 'last': []},
            'cfg': {'cacheOn': False}, 'consts': {'MAX_TIMEOUTS': 20}, 'test': {**{str(j + 1): (0 if j == star else 1) for j in range(m)}, '0': 0},
            'faults': {f'0.{j + 1}': 'timeout' for j in hang}, 'N': n, 'p_done': rng.choice([0.0, 1.0, 0.5]), 'wait_policy': rng.choice(['first', 'random']),
            'mode': 'pass', 'contract': False, 'rank': list(range(m + 1)), 'fuel': 400, 'expect_disk': [star + 1]}


def timeouts_over_rounds(rng):
    """two rounds of one pass, each with fewer than MAX_TIMEOUTS hanging candidates before its interesting one, MAX or
    more in total: the count is per round, so both rounds commit"""
    mx = rng.choice([2, 3, 4])
    a = rng.randint(1, mx - 1)
    b = rng.randint(max(1, mx - a), mx - 1)
    junk = max(a, b)
    texts = ['x' * 12, 'y' * 8, 'z' * 4] + ['j' * (9 + i) for i in range(junk)]      # 0 input, 1 after round 0, 2 after round 1, 3… junk
    p = {'name': 'p0', 'maxT': None, 'new': {'0': 0, '1': 0, '2': 0}, 'adv': {}, 'aos': {f'1.{a}': 0, f'2.{b}': 0}, 'tr': {}}
    for c, n, good in ((0, a, 1), (1, b, 2)):
        for j in range(n + 1):
            p['tr'][f'{c}.{j}'] = ['OK', good if j == n else 3 + j, j]
            if j < n:
                p['adv'][f'{c}.{j}'] = j + 1
    p['tr']['2.0'] = ['STOP', 2, 0]
    return {'texts': texts, 'files': ['a.c'], 'disk': [0], 'passes': [p], 'groups': {'first': [], 'main': [0], 'last': []},
            'cfg': {'cacheOn': False}, 'consts': {'MAX_TIMEOUTS': mx}, 'test': {**{str(i): 1 for i in range(len(texts))}, '0': 0, '1': 0, '2': 0},
            'faults': {**{f'0.{j + 1}': 'timeout' for j in range(a)}, **{f'1.{j + 1}': 'timeout' for j in range(b)}},
            'N': rng.choice([1, 2, 3, 6]), 'p_done': rng.choice([0.0, 1.0, 0.5]), 'wait_policy': rng.choice(['first', 'random']),
            'mode': 'pass', 'contract': False, 'rank': list(range(len(texts))), 'fuel': 400, 'expect_disk': [2]}


def timeouts_interleaved(rng):
    """one round in which hanging candidates alternate with candidates that fail quickly: the MAX_TIMEOUTS-th timeout ends
    the round whatever finished in between, so the interesting candidate far behind it is never reached"""
    mx = rng.choice([2, 3])
    n = rng.choice([1, 2, 3])
    m = 2 * mx + n + 4
    texts = ['x' * (m + 3)] + ['y' * (j + 1) for j in range(m)]
    p = {'name': 'p0', 'maxT': None, 'new': {'0': 0}, 'adv': {f'0.{j}': j + 1 for j in range(m - 1)}, 'aos': {},
         'tr': {f'0.{j}': ['OK', j + 1, j] for j in range(m)}}
    return {'texts': texts, 'files': ['a.c'], 'disk': [0], 'passes': [p], 'groups': {'first': [], 'main': [0], 'last': []},
            'cfg': {'cacheOn': False}, 'consts': {'MAX_TIMEOUTS': mx, 'MAX_EXTRA_DIRS': 25000},
            'test': {**{str(j + 1): (0 if j == m - 1 else 1) for j in range(m)}, '0': 0},
            'faults': {f'0.{j + 1}': 'timeout' for j in range(0, m - 1, 2)}, 'N': n, 'p_done': rng.choice([0.0, 1.0, 0.5]),
            'wait_policy': rng.choice(['first', 'random']), 'mode': 'pass', 'contract': False, 'rank': list(range(m + 1)), 'fuel': 400,
            'expect_disk': [0], 'expect_sig': 'round-continues-after-max-timeouts'}


def oracle_carries_on(scen, obs):
    if 'expect_sig' in scen and obs['outcome'] == 'ok' and obs['disk'] != scen['expect_disk']:
        return scen['expect_sig']
    if 'expect_disk' in scen and obs['outcome'] == 'ok' and obs['disk'] != scen['expect_disk']:
        return 'interesting-candidate-dropped-after-a-timeout'
    return None


def run(ctx):
    if ctx.replay and json.load(open(ctx.replay)).get('kind') == 'helper':
        helper_part(ctx)
        print('replayed ->', 'fails' if ctx.violations else 'holds')
        return 1 if ctx.violations else 0
    if ctx.replay:
        D.replay_drv(ctx, json.load(open(ctx.replay)), [oracle, oracle_timeouts, oracle_carries_on])
        return 1 if ctx.violations else 0
    ctx.lean_gate(OBLIGATIONS)
    diffs = []
    rows = D.sweep(ctx, scens(ctx, 500 if ctx.tier == 'quick' else 8000) + timeout_scens(ctx, 60 if ctx.tier == 'quick' else 600)
                   + [hang_then_pass(ctx.rng) for _ in range(40 if ctx.tier == 'quick' else 400)]
                   + [timeouts_over_rounds(ctx.rng) for _ in range(30 if ctx.tier == 'quick' else 300)]
                   + [timeouts_interleaved(ctx.rng) for _ in range(30 if ctx.tier == 'quick' else 300)], [oracle, oracle_timeouts, oracle_carries_on], diffs, nontriv)
    ctx.sample({'scenario_key': D.scen_key(rows[4][0]), 'faults': rows[4][0]['faults'], 'consts': rows[4][0]['consts'], 'observed': rows[4][2]})

    helper_part(ctx)
    # real pool, real scripts: exit!=0, SIGKILL, hang past the timeout, forking, megabytes of output, bytes that are not UTF-8
    import worldlib as W
    from concurrent.futures import ThreadPoolExecutor
    real = [W.scen_faults(ctx.rng), W.scen_noise(ctx.rng), W.scen_error_pass(ctx.rng)] + ([W.scen_faults(ctx.rng) for _ in range(4)] if ctx.tier != 'quick' else [])
    with ThreadPoolExecutor(max_workers=3) as ex:
        robs = list(ex.map(lambda sc: W.run(ctx, sc), real))
    for sc, ob in zip(real, robs):
        ctx.count()
        sig = W.oracle_completes(sc, ob)
        if sig:
            ctx.report('real:' + sc['name'] + ':' + sig, f"{sc['name']}: {sig}: {(ob.get('error_text') or '')[:120]}", {'kind': 'real', 'scenario': sc})
        ctx.nontrivial('real:' + sc['name'] + str(sc.get('N')))

    def search(budget):
        D.sweep(ctx, scens(ctx, 2000), [oracle], [], nontriv)
    conclude(ctx, diffs, search)
    return ctx.finish(obligations=OBLIGATIONS,
                      rule='faults (timeout, exit!=0, signal, swallowed exception, foreign exception, exit 0) assigned to (round, order) positions, helper ERROR/crash results, '
                           'small patched caps; oracle: every commit has an exit-0 invocation on exactly that joint content, directory caps, only C-Vise errors end the run. '
                           'non-trivial = scenario with a fault and a scripted schedule')
