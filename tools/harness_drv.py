"""K-drv: run one table-driven scenario against the real TestManager / CVise.reduce under the scheduler shim,
return canonical observations + the schedule actually played, and render the same scenario as a model line."""
import contextlib
import io
import logging
import os
import shutil
import tempfile
from pathlib import Path

import realcode  # noqa: F401
import shim
from cvise.cvise import CVise
from cvise.passes.abstract import AbstractPass, PassResult
from cvise.utils import statistics, testing

_CUR = {}   # current run context for the patched run_test (module-level so TablePass stays picklable)


class Crash(Exception):
    pass


class Watchdog(BaseException):
    """raised by the alarm; a BaseException so that `except Exception` in TestEnvironment.run cannot swallow it"""


def _on_alarm(signum, frame):
    raise Watchdog('scenario exceeded its time budget')


class TablePass(AbstractPass):
    """stub pass defined by finite tables over content ids (see DESIGN §3.3)"""

    def __init__(self, name, spec, texts):
        super().__init__(name, {})
        self.spec = spec
        self.texts = texts
        self.ids = {t: i for i, t in enumerate(texts)}
        self.max_transforms = spec.get('maxT')

    def check_prerequisites(self):
        return self.spec.get('prereq', True)       # False: the pass's external program is not installed

    def _cid(self, path):
        return self.ids.get(Path(path).read_text(), -1)

    def new(self, test_case, check_sanity=None):
        c = self._cid(test_case)
        alts = self.spec.get('fmt', {}).get(str(c))
        if alts and check_sanity is not None:
            # like LinesPass.__format: rewrite the file in place, keep the first alternative that passes the sanity check,
            # otherwise put the file back (and, for a bailing pass, give up)
            from cvise.utils.error import InsaneTestCaseError
            keep = Path(test_case).read_text()
            for a in alts:
                Path(test_case).write_text(self.texts[a])
                try:
                    check_sanity()
                except InsaneTestCaseError:
                    continue
                else:
                    # an in-place rewrite by `new`: logged for the oracles (event F), not part of the model's log
                    if _CUR.get('log') is not None:
                        _CUR['log'].append(f"F{_CUR['keyidx'].get(repr(self), -1)}.{_CUR['files'].index(str(test_case))}.{a}")
                    break
            else:
                Path(test_case).write_text(keep)
                if self.spec.get('bail'):
                    return None
        return self.spec['new'].get(str(self._cid(test_case)))

    def advance(self, test_case, state):
        return self.spec['adv'].get(f'{self._cid(test_case)}.{state}')

    def advance_on_success(self, test_case, state):
        return self.spec['aos'].get(f'{self._cid(test_case)}.{state}')

    def transform(self, test_case, state, process_event_notifier):
        c = self._cid(test_case)
        res, c2, s2 = self.spec['tr'].get(f'{c}.{state}', ('INVALID', c, state))
        if res == 'CRASH':
            raise Crash('scripted crash in transform')
        if c2 != c or res == 'OK':
            Path(test_case).write_text(self.texts[c2])
        return (PassResult[res], s2)


def _patched_run_test(self, verbose):
    ctx = _CUR
    joint = tuple(ctx['ids'].get((self.folder / f).read_text(), -1) for f in ctx['files'])
    ctx['invocations'].append((ctx['ctl'].pool.rid if (self.state is not None and ctx['ctl'].pool) else -1, self.order, joint))
    if self.state is not None and ctx['ctl'].pool is not None:
        fault = ctx['ctl'].faults.get((ctx['ctl'].pool.rid, self.order))
        if fault == 'broken':
            return None
        if isinstance(fault, int):
            return fault
    return ctx['test'].get(joint, 1)


def run_real(scen, workdir, rng=None):
    """returns observation dict"""
    workdir = Path(workdir)
    texts = scen['texts']
    files = scen['files']
    ids = {t: i for i, t in enumerate(texts)}
    cwd0 = os.getcwd()
    tmpd = workdir / 'tmp'
    tmpd.mkdir()
    wd = workdir / 'wd'
    wd.mkdir()
    old_tmp = os.environ.get('TMPDIR')
    os.environ['TMPDIR'] = str(tmpd)
    tempfile.tempdir = None
    os.chdir(wd)
    for f, c in zip(files, scen['disk']):
        Path(f).parent.mkdir(parents=True, exist_ok=True)
        Path(f).write_text(texts[c])
    # other files of the working directory (and backups that already exist): content ids like the test cases
    for f, c in (scen.get('world') or {}).get('files', {}).items():
        Path(f).parent.mkdir(parents=True, exist_ok=True)
        Path(f).write_text(texts[c])
    Path('t.sh').write_text('#!/bin/sh\nexit 0\n')
    os.chmod('t.sh', 0o755)
    for i in range(scen['cfg'].get('bug0', 0)):
        os.mkdir(f'cvise_bug_{i}')
    cfg = scen['cfg']
    consts = scen.get('consts', {})
    saved_consts = {k: getattr(testing.TestManager, k) for k in consts}
    for k, v in consts.items():
        setattr(testing.TestManager, k, v)
    faults = {}
    for k, v in scen.get('faults', {}).items():
        a, b = k.split('.')
        faults[(int(a), int(b))] = v
    sched = None
    if scen.get('sched') is not None:
        sched = {}
        for k, v in scen['sched'].items():
            a, b = k.split('.')
            sched[(int(a), int(b))] = v
    ctl = shim.Control(sched=sched, faults=faults, rng=rng, p_done=scen.get('p_done', 0.5), wait_policy=scen.get('wait_policy', 'first'))
    test = {tuple(int(x) for x in k.split('.')) if k else (): v for k, v in scen['test'].items()}
    _CUR.clear()
    _CUR.update(ids=ids, files=files, test=test, ctl=ctl, invocations=[])
    saved_rt = testing.TestEnvironment.run_test
    testing.TestEnvironment.run_test = _patched_run_test
    obs = {'outcome': 'ok', 'log': [], 'error_text': None}
    pending = []
    passes = [TablePass(p['name'], p, texts) for p in scen['passes']]
    keyidx = {}
    for i, p in enumerate(passes):
        keyidx.setdefault(repr(p), i)        # as the driver sees them: by repr
    _CUR.update(log=obs['log'], keyidx=keyidx)
    logger = logging.getLogger()
    saved_level = logger.level
    records = []

    class H(logging.Handler):
        def emit(self, rec):
            msg = rec.getMessage()
            records.append(msg)
            if not msg.startswith('cache hit for '):
                resolve()
            else:
                pending.append((keyidx.get(repr(tm.current_pass), -1), files.index(msg[len('cache hit for '):])))
    h = H()
    old_handlers = logger.handlers[:]
    logger.handlers = [h]
    logger.setLevel(logging.INFO)

    def resolve():
        while pending:
            pk, fi = pending.pop(0)
            obs['log'].append(f'R{pk}.{fi}.{ids.get(Path(files[fi]).read_text(), -1)}')
    out = io.StringIO()
    try:
        with shim.Installed(ctl), contextlib.redirect_stdout(out), contextlib.redirect_stderr(out):
            tm = testing.TestManager(
                statistics.PassStatistic(), 't.sh', 10, cfg.get('save_temps', False), list(files), scen.get('N', 2),
                not cfg.get('cacheOn', True), True, cfg.get('silent', False), cfg.get('die', False), False,
                cfg.get('maxImp'), cfg.get('noGiveUp', False), cfg.get('alsoInteresting'), cfg.get('startWith'),
                cfg.get('skipN'), 1.0)
            obs['perm'] = [files.index(str(p)) for p in tm.test_cases]
            opr = tm.process_result

            def pr(env):
                resolve()
                obs['log'].append(f'C{keyidx.get(repr(tm.current_pass), -1)}.{files.index(str(env.test_case))}.{ids.get(env.test_case_path.read_text(), -1)}')
                return opr(env)
            tm.process_result = pr
            orp = tm.run_pass
            obs['marked'] = []

            def rp(pass_):
                obs['marked'].append(('P', keyidx.get(repr(pass_), -1), len(obs['log']), sum(os.path.getsize(f) for f in files)))
                return orp(pass_)
            tm.run_pass = rp
            # the wall clock is stepped (NTP, suspend) right after every pass starts: +100 s, then back; a monotonic clock
            # does not notice, a wall-clock based pass timer does
            import time as _time
            real_wall = _time.time
            step = [0.0, 100.0]
            ostart = tm.pass_statistic.start

            def start(pass_):
                r = ostart(pass_)
                step[0] += step[1]
                step[1] = -step[1]
                return r
            tm.pass_statistic.start = start
            _time.time = lambda: real_wall() + step[0]
            t_begin = _time.monotonic()
            import signal
            # the watchdog counts CPU time of this process (everything runs in-process under the shim, a loop that does not end
            # burns CPU); wall clock only as a distant backstop, so that a loaded machine cannot turn a healthy run into a Watchdog
            signal.signal(signal.SIGALRM, _on_alarm)
            signal.signal(signal.SIGPROF, _on_alarm)
            signal.setitimer(signal.ITIMER_PROF, scen.get('budget_s', 20))
            signal.setitimer(signal.ITIMER_REAL, 30 * scen.get('budget_s', 20))
            try:
                if scen.get('mode') == 'pass':
                    tm.run_pass(passes[scen['groups']['main'][0]])
                else:
                    cv = CVise(tm, False)
                    cv.tidy = cfg.get('tidy', False)
                    grp = {k: [passes[i] for i in scen['groups'].get(k, [])] for k in ('first', 'main', 'last')}
                    cv.reduce(grp, scen.get('skipInitial', False))
            except BaseException as e:  # noqa
                name = type(e).__name__
                obs['outcome'] = {'Foreign': 'ForeignError'}.get(name, name)
                obs['error_text'] = str(e)[:200]
            finally:
                signal.setitimer(signal.ITIMER_PROF, 0)
                signal.setitimer(signal.ITIMER_REAL, 0)
                _time.time = real_wall
                obs['elapsed'] = _time.monotonic() - t_begin
            resolve()
            st = tm.pass_statistic.stats
            obs['stats'] = {keyidx[k]: (v.worked, v.failed, v.totally_executed) for k, v in st.items() if k in keyidx}
            obs['seconds'] = {keyidx[k]: v.total_seconds for k, v in st.items() if k in keyidx}
            obs['futures_left'] = len(getattr(tm, 'futures', []) or [])
    finally:
        logger.handlers = old_handlers
        logger.setLevel(saved_level)
        testing.TestEnvironment.run_test = saved_rt
        for k, v in saved_consts.items():
            setattr(testing.TestManager, k, v)
    obs['disk'] = [ids.get(Path(f).read_text(), -1) if Path(f).exists() else -2 for f in files]
    if scen.get('world') is not None:
        # the working directory after the run, report directories excluded: (relative path, content id)
        listing = []
        for root, dirs, fs_ in os.walk('.'):
            dirs[:] = [d_ for d_ in dirs if not (root == '.' and d_.startswith(('cvise_bug_', 'cvise_extra_')))]
            for f_ in fs_:
                rel = os.path.relpath(os.path.join(root, f_), '.')
                if rel == 't.sh':
                    continue
                try:
                    listing.append((rel, ids.get(Path(rel).read_text(), -1)))
                except (OSError, UnicodeDecodeError):
                    listing.append((rel, -3))
        obs['fs'] = sorted(listing)
    obs['bug'] = len([x for x in os.listdir('.') if x.startswith('cvise_bug_')])
    obs['extra'] = len([x for x in os.listdir('.') if x.startswith('cvise_extra_')])
    obs['tmp_left'] = sorted(x for x in os.listdir(tmpd) if not x.startswith('pymp-'))
    obs['cwd_same'] = os.getcwd() == str(wd)
    obs['played'] = {f'{a}.{b}': v for (a, b), v in sorted(ctl.played.items())}
    obs['invocations'] = list(_CUR['invocations'])
    obs['scheduled'] = list(ctl.scheduled)
    obs['rounds'] = ctl.rounds
    obs['stdout'] = out.getvalue()[-400:]
    os.chdir(cwd0)
    if old_tmp is None:
        os.environ.pop('TMPDIR', None)
    else:
        os.environ['TMPDIR'] = old_tmp
    tempfile.tempdir = None
    return obs


def dots(t):
    return '.'.join(str(x) for x in t) if len(t) else '-'


def fault_tok(v):
    return str(v)


def pass_keys(scen):
    """key of pass i = index of the first pass with the same repr (name and max-transforms): the replay table and the
    statistics are keyed on repr(pass), so two entries that name the same pass with the same limit share both"""
    seen = {}
    out = []
    for i, p in enumerate(scen['passes']):
        out.append(seen.setdefault((p['name'], p.get('maxT')), i))
    return out


def model_line(scen, obs, joint_key):
    """the protocol line for the Lean driver; the schedule is the one the shim played, the tie order the one observed"""
    cfg = scen['cfg']
    c = scen.get('consts', {})

    def b(x):
        return '1' if x else '0'

    def on(x):
        return 'N' if x is None else str(x)
    cfgs = ','.join([
        b(cfg.get('cacheOn', True)), b(joint_key), on(cfg.get('maxImp')), on(cfg.get('skipN')), b(cfg.get('silent', False)),
        b(cfg.get('die', False)), b(cfg.get('noGiveUp', False)), on(cfg.get('alsoInteresting')),
        str(c.get('GIVEUP_CONSTANT', 50000)), str(c.get('MAX_TIMEOUTS', 20)), str(c.get('MAX_CRASH_DIRS', 10)),
        str(c.get('MAX_EXTRA_DIRS', 25000)), str(scen.get('growth', 3)), str(cfg.get('bug0', 0)), '0', b(scen.get('releaseBeforeBail', False))])
    ps = []
    keys = pass_keys(scen)
    for i, p in enumerate(scen['passes']):
        new = ','.join(f'{k}:{v}' for k, v in p['new'].items()) or '-'
        adv = ','.join(f"{k.replace('.', ':')}:{v}" for k, v in p['adv'].items()) or '-'
        aos = ','.join(f"{k.replace('.', ':')}:{v}" for k, v in p['aos'].items()) or '-'
        tr = ','.join(f"{k.replace('.', ':')}:{v[0]}:{v[1]}:{v[2]}" for k, v in p['tr'].items()) or '-'
        fmt = ','.join(f"{k}:{':'.join(map(str, v))}" for k, v in p.get('fmt', {}).items() if v) or '-'
        ps.append(f"key={keys[i]};maxT={on(p.get('maxT'))};new={new};adv={adv};aos={aos};tr={tr};fmt={fmt};bail={b(p.get('bail', False))};avail={b(p.get('prereq', True))}")
    groups = ';'.join(f"{k}={','.join(map(str, scen['groups'].get(k, []))) or '-'}" for k in ('first', 'main', 'last'))
    test = ';'.join(f"{k or '-'}:{v}" for k, v in scen['test'].items()) or '-'
    faults = ';'.join(f'{k}:{fault_tok(v)}' for k, v in scen.get('faults', {}).items()) or '-'
    sched = ';'.join(f'{k}:{dots(v)}' for k, v in obs['played'].items()) or '-'
    # --start-with-pass: the model gets the key of the pass whose repr() equals the option (a name no pass carries: a key no pass has)
    sw = 'N'
    if cfg.get('startWith'):
        reprs = [f"TablePass::{p['name']}" + (f" ({p['maxT']} T)" if p.get('maxT') is not None else '') for p in scen['passes']]
        sw = str(keys[reprs.index(cfg['startWith'])]) if cfg['startWith'] in reprs else '999999'
    world = ''
    if scen.get('world') is not None:
        init = [(f, c) for f, c in zip(scen['files'], scen['disk'])] + sorted(scen['world'].get('files', {}).items())
        world = f"|names={';'.join(scen['files'])}|wfs={';'.join(f'{f}:{c}' for f, c in init)}|tidy={b(cfg.get('tidy', False))}"
    return (f"drv mode={scen.get('mode', 'reduce')}|sw={sw}|skipInitial={b(scen.get('skipInitial', False))}{world}|cfg={cfgs}|sizes={','.join(str(len(t.encode())) for t in scen['texts'])}"
            f"|disk={','.join(map(str, scen['disk']))}|perm={','.join(map(str, obs['perm']))}|passes={'/'.join(ps)}|groups={groups}"
            f"|test={test}|faults={faults}|sched={sched}|fuel={scen.get('fuel', 400)}")


def render_obs(scen, obs):
    ks = sorted(set(pass_keys(scen)), key=pass_keys(scen).index)
    stats = ','.join(f"{i}:{'/'.join(map(str, obs['stats'].get(i, (0, 0, 0))))}" for i in ks) or '-'
    tot = [sum(obs['stats'].get(i, (0, 0, 0))[j] for i in ks) for j in range(3)]
    fs = ''
    if scen.get('world') is not None:
        fs = ' fs=' + ';'.join(sorted(f'{f}:{c}' for f, c in obs.get('fs', [])))       # the model sorts the rendered entries
    return (f"{obs['outcome']} disk={','.join(map(str, obs['disk'])) or '-'} worked={tot[0]} failed={tot[1]} executed={tot[2]} "
            f"bug={obs['bug']} extra={obs['extra']} stats={stats} log={','.join(e for e in obs['log'] if e[0] != 'F') or '-'}{fs}")


# ------------------------------------------------------------------ real passes (text passes) under the shim
_PCUR = {}


def _patched_run_test_pred(self, verbose):
    files = {f: (self.folder / f).read_text() for f in _PCUR['files']}
    _PCUR['invocations'].append(dict(files))
    return 0 if _PCUR['pred'](files) else 1


def run_real_textpass(pass_obj, files, pred, N, ctl, workdir, cache=False, consts=None):
    """run_pass of a real pass object on real files with an in-process predicate; returns observations"""
    workdir = Path(workdir)
    cwd0 = os.getcwd()
    tmpd = workdir / 'tmp'
    tmpd.mkdir()
    wd = workdir / 'wd'
    wd.mkdir()
    old_tmp = os.environ.get('TMPDIR')
    os.environ['TMPDIR'] = str(tmpd)
    tempfile.tempdir = None
    os.chdir(wd)
    for f, t in files.items():
        Path(f).parent.mkdir(parents=True, exist_ok=True)
        Path(f).write_text(t)
    Path('t.sh').write_text('#!/bin/sh\nexit 0\n')
    os.chmod('t.sh', 0o755)
    _PCUR.clear()
    _PCUR.update(files=list(files), pred=pred, invocations=[])
    saved_rt = testing.TestEnvironment.run_test
    testing.TestEnvironment.run_test = _patched_run_test_pred
    obs = {'outcome': 'ok', 'accepted': []}
    out = io.StringIO()
    logger = logging.getLogger()
    saved_level = logger.level
    logger.setLevel(logging.WARNING)
    try:
        with shim.Installed(ctl), contextlib.redirect_stdout(out), contextlib.redirect_stderr(out):
            tm = testing.TestManager(statistics.PassStatistic(), 't.sh', 10, False, list(files), N, not cache, True,
                                     False, False, False, None, False, None, None, None, 1.0)
            opr = tm.process_result

            def pr(env):
                obs['accepted'].append((str(env.test_case), env.test_case_path.read_text()))
                return opr(env)
            tm.process_result = pr
            if not hasattr(pass_obj, 'max_transforms'):
                pass_obj.max_transforms = None
            try:
                tm.run_pass(pass_obj)
            except BaseException as e:  # noqa
                obs['outcome'] = type(e).__name__
                obs['error_text'] = str(e)[:300]
            st = tm.pass_statistic.stats.get(repr(pass_obj))
            obs['stats'] = (st.worked, st.failed, st.totally_executed) if st else (0, 0, 0)
    finally:
        testing.TestEnvironment.run_test = saved_rt
        logger.setLevel(saved_level)
    obs['final'] = {f: Path(f).read_text() for f in files}
    obs['tmp_left'] = sorted(x for x in os.listdir(tmpd) if not x.startswith('pymp-'))
    obs['wd_listing'] = sorted(str(p.relative_to(wd)) for p in wd.rglob('*') if p.is_file())
    obs['scheduled'] = len(ctl.scheduled)
    obs['stdout'] = out.getvalue()[-300:]
    os.chdir(cwd0)
    if old_tmp is None:
        os.environ.pop('TMPDIR', None)
    else:
        os.environ['TMPDIR'] = old_tmp
    tempfile.tempdir = None
    return obs
