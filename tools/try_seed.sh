#!/bin/bash
# try_seed.sh <seeded-dir-name> <check> [tier] — applies /verif/seeded/<name>/patch.diff in a scratch worktree of /repo and
# runs ./check <check> of the working copy of /verif against it (CVISE_REPO); /repo is not touched
name=$1; chk=$2; tier=${3:-quick}
wt=/tmp/tryseed/$name-$chk
git -C /repo worktree remove --force $wt >/dev/null 2>&1
mkdir -p /tmp/tryseed && git -C /repo worktree add --detach $wt HEAD -q || exit 3
git -C $wt apply /verif/seeded/$name/patch.diff || { echo "patch does not apply"; exit 3; }
cd /verif && CVISE_REPO=$wt VERIF_EVIDENCE_DIR=/tmp/tryseed/ev/$name-$chk timeout 1700 ./check $chk --tier $tier 2>&1 | grep -E "^(VIOLATION|# |TOOL|KNOWN)" | cut -c1-300
echo "exit=${PIPESTATUS[0]}"
git -C /repo worktree remove --force $wt
