#!/usr/bin/env python3
"""Writes /verif/MANIFEST.json from tools/props_meta.json (one place to keep the per-property claims)."""
import json
from pathlib import Path
V = Path(__file__).resolve().parent.parent
meta = json.load(open(V / 'tools' / 'props_meta.json'))
all_ids = [json.loads(l)['id'] for l in open(V / 'properties.jsonl')]
checks = []
for pid in all_ids:
    m = meta['checks'].get(pid)
    if not m:
        continue
    checks.append({
        'property_id': pid,
        'quick_cmd': f'./check {pid} --tier quick',
        'thorough_cmd': f'./check {pid} --tier thorough',
        'evidence_file': f'evidence/{pid}.json',
        'replay_cmd_template': f'./check {pid} --replay {{path}}',
        'engine': 'lean4-proof+correspondence',
        'level_claimed': {'category': 'proof', 'text': m['text'], 'design_ref': m.get('design_ref', f'DESIGN.md §5 {pid}')},
        'level_note': m['note'],
        'technique': m['technique'],
    })
na = [{'property_id': pid, 'reason': meta['not_applicable'].get(pid, 'check not built yet in this tree (work in progress; see DESIGN.md §8 build order)')}
      for pid in all_ids if pid not in meta['checks']]
man = {
    'version': 1,
    'setup_cmd': 'cd lean && lake build Cvise drv',
    'hooks': {
        'guard': 'MORTIOR_CVISE_VERIF',
        'enable': 'no source hooks are needed: the harness monkeypatches the scheduler from outside (tools/shim.py); checks import /repo as it is',
        'baseline_off_cmd': 'cd /repo && /venv/bin/python -m pytest -ra -q -p no:cacheprovider --timeout=900 --continue-on-collection-errors',
        'source_commits': meta.get('hook_commits', []),
        'add_only': True,
    },
    'engines': [{'name': 'lean4-proof+correspondence', 'path': 'lean/', 'serves_properties': [c['property_id'] for c in checks],
                 'kind_free_text': 'Lean 4 models + theorems (lean/Cvise), translator tools/gen_model.py, correspondence harnesses tools/check_*.py driving /repo and the compiled model driver (lean/Main.lean)'}],
    'checks': checks,
    'notes': meta.get('notes', ''),
    'not_applicable': na,
}
(V / 'MANIFEST.json').write_text(json.dumps(man, indent=1) + '\n')
print(len(checks), 'checks;', len(na), 'not claimed')
