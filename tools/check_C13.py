"""C13 — pass-group selection follows the documented include/exclude/flag rules."""
import itertools
import json
import re
from pathlib import Path

from vlib import conclude, REPO
import realcode  # noqa: F401
from cvise.cvise import CVise
from cvise.passes.abstract import AbstractPass
from cvise.utils.error import CViseError

OBLIGATIONS = ['Cvise.C13.parse_eq_spec', 'Cvise.C13.parse_rejects', 'Cvise.C13.lazy_counterexample', 'Cvise.C13.parse_total',
               'Cvise.C13.shipped_wellformed', 'Cvise.C13.shipped', 'Cvise.C13.shipped_eager']

CATS = ['first', 'main', 'last']
VALID_OPTS = [o.name for o in AbstractPass.Option]        # the strings a pass-group file uses


def enc(s):
    return '-' if s == '' else '-'.join(str(ord(c)) for c in s)   # '-' separated so ',' is free


def enc_s(s):
    # Lean's textOf expects comma-separated code points; fields here are separated by '/', ';', '+', '=' and '|'
    return ','.join(str(ord(c)) for c in s) if s else '-'


def enc_list(l):
    return '+'.join(enc_s(x) for x in l) if l else '-'


def entry_tok(e):
    def o(v):
        return 'N' if v is None else enc_s(str(v))
    return '/'.join([o(e.get('pass')), o(e.get('arg')),
                     'N' if 'include' not in e else enc_list(e['include']),
                     'N' if 'exclude' not in e else enc_list(e['exclude']),
                     '1' if e.get('c') else '0', '1' if e.get('renaming') else '0',
                     'N' if 'max-transforms' not in e else str(int(e['max-transforms']))])


def model_line(d, active, removed, not_c, renaming, eager):
    cats = [f"{enc_s(c)}={';'.join(entry_tok(e) for e in es) or '-'}" for c, es in d.items()]
    return (f"group eager={1 if eager else 0} active={enc_list(active)} removed={enc_list(removed)} notC={1 if not_c else 0} ren={1 if renaming else 0}"
            + ''.join(' | ' + c for c in cats))


def real_parse(d, active, removed, not_c, renaming):
    opts = {AbstractPass.Option[a] for a in active}
    try:
        g = CVise.parse_pass_group_dict(d, opts, None, ','.join(removed) if removed else None, None, None, not_c, renaming)
    except CViseError as e:
        return f'error:{type(e).__name__}:{e}'
    except Exception as e:
        return f'crash:{type(e).__name__}:{e}'
    return 'ok ' + ' | '.join(f"{c}={'; '.join(repr(p) for p in g[c]) or '-'}" for c in CATS)


# ------------------------------------------------------------------ independent reading of the documented rule
def spec(d, active, removed, not_c, renaming):
    """returns ('ok', {cat: [repr]}) or ('reject',)"""
    for c in CATS:
        if c not in d:
            return ('reject',)
    for c in CATS:
        for e in d[c]:
            if 'pass' not in e or e['pass'] not in CVise.pass_name_mapping:
                return ('reject',)
            for k in ('include', 'exclude'):
                if k in e and any(o not in VALID_OPTS for o in e[k]):
                    return ('reject',)
    out = {}
    for c in CATS:
        out[c] = []
        for e in d[c]:
            if 'include' in e and not (set(e['include']) & set(active)):
                continue
            if 'exclude' in e and (set(e['exclude']) & set(active)):
                continue
            cls = CVise.pass_name_mapping[e['pass']].__name__
            name = cls + ('::' + str(e['arg']) if e.get('arg') is not None else '')
            if name in removed:
                continue
            if not_c and e.get('c'):
                continue
            if not renaming and e.get('renaming'):
                continue
            out[c].append(name + (f" ({int(e['max-transforms'])} T)" if 'max-transforms' in e else ''))
    return ('ok', out)


def judge(d, active, removed, not_c, renaming, real):
    s = spec(d, active, removed, not_c, renaming)
    if s[0] == 'reject':
        if real.startswith('error:'):
            return None
        hidden = real.startswith('ok ')
        return 'malformed-entry-behind-filter-accepted' if hidden else 'malformed-file-not-rejected-with-cvise-error'
    if not real.startswith('ok '):
        return 'wellformed-file-rejected'
    want = 'ok ' + ' | '.join(f"{c}={'; '.join(s[1][c]) or '-'}" for c in CATS)
    if real != want:
        return 'schedule-differs-from-documented-rule'
    return None


# ------------------------------------------------------------------ generators
def shipped():
    out = {}
    for f in sorted((REPO / 'cvise/pass_groups').glob('*.json')):
        out[f.stem] = json.loads(f.read_text())
    return out


def rand_entry(rng, malformed):
    names = list(CVise.pass_name_mapping)
    e = {'pass': rng.choice(names)}
    if rng.random() < 0.6:
        e['arg'] = rng.choice(['a', 'b', '0', 'parens', 'curly', 'rm-toks-1', 'x y'])
    if rng.random() < 0.4:
        e['include'] = rng.sample(VALID_OPTS, rng.randint(0, 2))
    if rng.random() < 0.4:
        e['exclude'] = rng.sample(VALID_OPTS, rng.randint(0, 2))
    if rng.random() < 0.4:
        e['c'] = rng.choice([True, False, 1, 0])
    if rng.random() < 0.3:
        e['renaming'] = rng.choice([True, False])
    if rng.random() < 0.3:
        e['max-transforms'] = rng.choice([1, 5, '30', 0])
    if malformed:
        k = rng.random()
        if k < 0.3:
            e['pass'] = rng.choice(['nosuch', 'Lines', ''])
        elif k < 0.5:
            del e['pass']
        elif k < 0.75:
            e['include'] = e.get('include', []) + ['sllooww']
        else:
            e['exclude'] = e.get('exclude', []) + ['fast']
        if rng.random() < 0.6:
            # hide it behind a filter that the (randomly chosen) options may or may not satisfy
            if 'sllooww' not in e.get('include', []):
                e['include'] = ['slow'] if 'include' not in e or not e['include'] else e['include']
    return e


def rand_dict(rng):
    d = {}
    bad = rng.random() < 0.4
    for c in CATS:
        if bad and rng.random() < 0.15:
            continue
        d[c] = [rand_entry(rng, bad and rng.random() < 0.25) for _ in range(rng.randint(0, 5))]
    return d


def cases(ctx):
    rng = ctx.rng
    out = []
    reprs = sorted({cls.__name__ for cls in CVise.pass_name_mapping.values()})
    for name, d in shipped().items():
        some_names = []
        for c in CATS:
            for e in d.get(c, [])[:40:7]:
                cls = CVise.pass_name_mapping[e['pass']].__name__
                some_names.append(cls + ('::' + e['arg'] if e.get('arg') else ''))
        rem_sets = [[], some_names[:1], some_names[:3], ['LinesPass::0', 'BlankPass'], reprs[:2]]
        for k in range(len(VALID_OPTS) + 1):
            for active in itertools.combinations(VALID_OPTS, k):
                for not_c in (False, True):
                    for ren in (False, True):
                        for rem in (rem_sets if ctx.tier != 'quick' else rem_sets[:3]):
                            out.append((d, list(active), rem, not_c, ren, 'shipped:' + name))
    for i in range(400 if ctx.tier == 'quick' else 6000):
        d = rand_dict(rng)
        active = [o for o in VALID_OPTS if rng.random() < 0.4]
        rem = rng.sample(['LinesPass::0', 'BlankPass', 'BalancedPass::parens', 'ClexPass::rm-toks-1'], rng.randint(0, 2))
        out.append((d, active, rem, rng.random() < 0.4, rng.random() < 0.4, 'random'))
    # corpus: F6
    out.append(({'first': [{'pass': 'nosuch', 'include': ['slow']}], 'main': [], 'last': []}, [], [], False, False, 'corpus:F6-unknown-pass'))
    out.append(({'first': [{'pass': 'lines', 'include': ['slow'], 'exclude': ['nope']}], 'main': [], 'last': []}, [], [], False, False, 'corpus:F6-unknown-option'))
    return out


def eager_from_source():
    import gen_model
    gen, _ = gen_model.generate(REPO)
    return 'def parseEager : Bool := true' in gen.get('PassGroups.lean', '')


def cli_part(ctx, only=None):
    """the command-line front end: `cvise.py --list-passes` with --sllooww / --not-c / --renaming / --remove-pass for the
    shipped groups and a custom group file must print exactly the schedule the documented rule selects (the flags reach the
    parser unchanged)"""
    import itertools
    import os
    import subprocess
    import sys as _sys
    import tempfile
    import shutil
    from concurrent.futures import ThreadPoolExecutor
    d = Path(tempfile.mkdtemp(prefix='c13cli-', dir=ctx.scratch))
    (d / 'stub' / 'chardet').mkdir(parents=True)
    (d / 'stub' / 'chardet' / '__init__.py').write_text("def detect(b):\n    return {'encoding': 'ascii', 'confidence': 1.0}\n")
    custom = {'first': [{'pass': 'blank'}, {'pass': 'lines', 'arg': '0', 'include': ['slow']}, {'pass': 'ints', 'arg': 'a', 'c': True}],
              'main': [{'pass': 'clex', 'arg': 'rename-toks', 'renaming': True}, {'pass': 'clex', 'arg': 'rm-toks-1', 'renaming': True, 'c': True},
                       {'pass': 'balanced', 'arg': 'curly', 'exclude': ['slow'], 'max-transforms': 3}, {'pass': 'peep', 'arg': 'a', 'include': ['windows', 'slow']}],
              'last': [{'pass': 'special', 'arg': 'a', 'c': True, 'renaming': True}, {'pass': 'comments'}]}
    (d / 'custom.json').write_text(json.dumps(custom))
    groups = dict(shipped(), custom=custom)
    env = dict(os.environ, PYTHONPATH=f"{d / 'stub'}:{REPO}", TMPDIR=str(d))
    jobs = []
    for gname in sorted(groups):
        for slow, not_c, ren in itertools.product([False, True], repeat=3):
            rems = [[], ['BlankPass'] if gname != 'custom' else ['ClexPass::rename-toks']]
            # names of entries that carry a max-transforms limit (the name to give is the one without the ` (N T)` suffix), and
            # several names at once
            if gname == 'all':
                rems += [['ClangBinarySearchPass::replace-function-def-with-decl'], ['ClangBinarySearchPass::remove-unused-function', 'LinesPass::0']]
            if gname == 'custom':
                rems += [['BalancedPass::curly'], ['ClexPass::rename-toks', 'CommentsPass', 'BalancedPass::curly']]
            for rem in rems:
                if rem and (slow or not ren) and len(rems) == 2:
                    continue
                if rem and len(rems) > 2 and rem not in rems[:2] and (not_c or (slow and gname == 'all')):
                    continue
                jobs.append((gname, slow, not_c, ren, rem))
    if only is not None:
        jobs = [tuple(only)]
    if ctx.tier == 'quick' and only is None:
        jobs = [j for j in jobs if j[0] in ('custom', 'all') or (j[2] and j[3])]

    def one(job):
        gname, slow, not_c, ren, rem = job
        cmd = [_sys.executable, str(REPO / 'cvise.py'), '--list-passes']
        cmd += ['--pass-group-file', str(d / 'custom.json')] if gname == 'custom' else ['--pass-group', gname]
        cmd += (['--sllooww'] if slow else []) + (['--not-c'] if not_c else []) + (['--renaming'] if ren else [])
        if rem:
            cmd += ['--remove-pass', ','.join(rem)]
        cmd += ['test.sh', 'a.c']          # required positional arguments; --list-passes exits before they are looked at
        r = subprocess.run(cmd, cwd=d, env=env, capture_output=True, text=True, timeout=120)
        return r.returncode, r.stdout + r.stderr
    try:
        with ThreadPoolExecutor(max_workers=8) as ex:
            results = list(ex.map(one, jobs))
    finally:
        shutil.rmtree(d, ignore_errors=True)
    usable = 0
    for job, (rc, text) in zip(jobs, results):
        gname, slow, not_c, ren, rem = job
        ctx.count()
        if 'INITIAL PASSES' not in text:
            ctx.notes['cli'] = 'cvise.py --list-passes did not print a listing here: ' + text[-200:]
            continue
        usable += 1
        body = text[text.index('INITIAL PASSES'):]
        got = {'first': [], 'main': [], 'last': []}
        cur = None
        for line in body.split('\n'):
            line = re.sub(r'^\d\d:\d\d:\d\d\s+\w+\s+', '', line.strip())
            if line in ('INITIAL PASSES', 'MAIN PASSES', 'CLEANUP PASSES'):
                cur = {'INITIAL PASSES': 'first', 'MAIN PASSES': 'main', 'CLEANUP PASSES': 'last'}[line]
            elif line and cur:
                got[cur].append(line)
        want = spec(groups[gname], ['slow'] if slow else [], rem, not_c, ren)
        if want[0] != 'ok' or got != want[1]:
            diff = next((c for c in CATS if got[c] != want[1][c]), None) if want[0] == 'ok' else None
            ctx.report('front-end-schedule-differs-from-documented-rule',
                       f"cvise.py --list-passes group={gname} slow={slow} not_c={not_c} renaming={ren} remove={rem}: {diff}: printed {got.get(diff)} expected {want[1].get(diff) if want[0] == 'ok' else want}"[:600],
                       {'kind': 'cli', 'job': list(job)})
        elif not_c or ren or slow:
            ctx.nontrivial(('cli',) + tuple(map(str, job)))
    # other platforms (the `windows` option is active on Windows only), and a custom group file whose name collides with a
    # shipped group: the schedule comes from the file that was named
    import cliprobe
    base2 = Path(tempfile.mkdtemp(prefix='c13cli2-', dir=ctx.scratch))
    try:
        stub2 = cliprobe.stub_dir(base2)
        (base2 / 'mine').mkdir()
        for nm in ('all.json', 'delta.json', 'binary.json', 'opencl-120.json'):
            (base2 / 'mine' / nm).write_text(json.dumps(custom))
        extra = [(['--pass-group', 'all'], shipped()['all'], plat) for plat in ('darwin', 'cygwin', 'freebsd14')] + \
                [(['--pass-group-file', str(base2 / 'mine' / nm)], custom, None) for nm in ('all.json', 'delta.json', 'binary.json', 'opencl-120.json')]
        if only is None:
            for opts, gdict, plat in extra:
                rc, out, _ = cliprobe.run_cli(stub2, ['--list-passes'] + opts + ['t.sh', 'a.c'], base2, platform=plat)
                ctx.count()
                if 'INITIAL PASSES' not in out:
                    continue
                body = out[out.index('INITIAL PASSES'):]
                got = {'first': [], 'main': [], 'last': []}
                cur = None
                for line in body.split('\n'):
                    line = re.sub(r'^\d\d:\d\d:\d\d\s+\w+\s+', '', line.strip())
                    if line in ('INITIAL PASSES', 'MAIN PASSES', 'CLEANUP PASSES'):
                        cur = {'INITIAL PASSES': 'first', 'MAIN PASSES': 'main', 'CLEANUP PASSES': 'last'}[line]
                    elif line and cur:
                        got[cur].append(line)
                want = spec(gdict, [], [], False, False)
                if want[0] != 'ok' or got != want[1]:
                    diff = next((c for c in CATS if got[c] != want[1][c]), None) if want[0] == 'ok' else None
                    ctx.report('front-end-schedule-differs-from-documented-rule',
                               f"cvise.py --list-passes {' '.join(opts)} (platform {plat or 'this one'}): {diff}: printed {got.get(diff)} expected {want[1].get(diff) if want[0] == 'ok' else want}"[:600],
                               {'kind': 'cli', 'job': None, 'options': opts, 'platform': plat})
                else:
                    ctx.nontrivial(('cli2', str(opts), str(plat)))
    finally:
        shutil.rmtree(base2, ignore_errors=True)
    ctx.notes.setdefault('cli_runs', usable)
    if usable == 0:
        from vlib import ToolTrouble
        raise ToolTrouble('cvise.py --list-passes printed no listing in any run: ' + str(ctx.notes.get('cli'))[:300])


def run(ctx):
    eager = eager_from_source()
    if ctx.replay and json.load(open(ctx.replay)).get('kind') == 'cli':
        cli_part(ctx, json.load(open(ctx.replay)).get('job'))
        print('replayed ->', 'fails' if ctx.violations else 'holds')
        return 1 if ctx.violations else 0
    if ctx.replay:
        o = json.load(open(ctx.replay))
        r = real_parse(o['dict'], o['active'], o['removed'], o['not_c'], o['renaming'])
        sig = judge(o['dict'], o['active'], o['removed'], o['not_c'], o['renaming'], r)
        print('real:', r, '->', sig or 'holds')
        if sig:
            ctx.report(sig, r, o)
        return 1 if ctx.violations else 0
    obligations = [o for o in OBLIGATIONS]
    ctx.lean_gate(obligations)
    diffs = []
    cs = cases(ctx)
    lines, reals = [], []
    fam = {}
    for d, active, rem, not_c, ren, tag in cs:
        r = real_parse(d, active, rem, not_c, ren)
        ctx.count()
        scen = {'kind': 'group', 'dict': d if not tag.startswith('shipped') else tag, 'active': active, 'removed': rem, 'not_c': not_c, 'renaming': ren, 'tag': tag}
        if tag.startswith('shipped'):
            scen['dict'] = d
        sig = judge(d, active, rem, not_c, ren, r)
        if sig:
            small = dict(scen)
            ctx.report(sig, f'{tag}: {r[:200]}', small)
        if r.startswith('ok '):
            kept = r.count('Pass')
            total = sum(len(d.get(c, [])) for c in CATS)
            if 0 < kept < total:
                ctx.nontrivial(json.dumps([d, active, rem, not_c, ren], sort_keys=True, default=str))
        fam[r.split(':')[0] if not r.startswith('ok') else 'ok'] = fam.get(r.split(':')[0] if not r.startswith('ok') else 'ok', 0) + 1
        lines.append(model_line(d, active, rem, not_c, ren, eager))
        reals.append(r)
    cli_part(ctx)
    outs = ctx.model(lines)
    for (d, active, rem, not_c, ren, tag), r, m in zip(cs, reals, outs):
        if r != m:
            diffs.append({'kind': 'group', 'tag': tag, 'dict': d, 'active': active, 'removed': rem, 'not_c': not_c, 'renaming': ren, 'real': r[:300], 'model': m[:300]})
    ctx.sample({'tag': cs[-1][5], 'dict': cs[-1][0], 'observed': reals[-1]})
    ctx.sample({'tag': cs[0][5], 'active': cs[0][1], 'observed': reals[0][:300]})
    conclude(ctx, diffs, None)
    return ctx.finish(obligations=obligations,
                      rule='the four shipped groups under every subset of {slow, windows} x not_c x renaming x remove-pass sets; random dictionaries with missing categories, '
                           'unknown passes/options in reachable and filtered entries, truthy/falsy c values, numeric-string limits; real parse_pass_group_dict vs Lean model vs an independent reading. '
                           'non-trivial = accepted dictionary in which at least one entry is filtered and one kept',
                      extra={'outcome_kinds': fam, 'model_validates_before_filter': eager})
