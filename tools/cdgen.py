"""clang_delta source-text extractor: registrations, multi-rewrite classes, one protocol skeleton per
`Class::HandleTranslationUnit`, exit-code / message conventions.  Pure text analysis (the tool cannot be built here)."""
import glob
import os
import re


def strip_comments(s):
    s = re.sub(r'/\*.*?\*/', '', s, flags=re.S)
    s = re.sub(r'//[^\n]*', '', s)
    return s


def body_at(s, i):
    d = 0
    for j in range(i, len(s)):
        if s[j] == '{':
            d += 1
        elif s[j] == '}':
            d -= 1
            if d == 0:
                return s[i:j + 1]
    return s[i:]


def functions(s):
    out = {}
    for m in re.finditer(r'(\w+)::(\w+)\s*\([^;{}]*\)\s*(?:const\s*)?\{', s):
        out.setdefault((m.group(1), m.group(2)), []).append(body_at(s, m.end() - 1))
    return out


def classes(s):
    out = {}
    for m in re.finditer(r'\bclass\s+(?:\w+::)?(\w+)\s*(?::[^{;]*)?\{', s):
        out[m.group(1)] = body_at(s, m.end() - 1)
    return out


REW = re.compile(r'\bTheRewriter\b|RewriteHelper\s*->|RewriteHelper\s*\.')


def split_stmts(b):
    b = b.strip()[1:-1]
    out = []
    d = 0
    cur = ''
    i = 0
    while i < len(b):
        ch = b[i]
        cur += ch
        if ch in '({':
            d += 1
        elif ch in ')}':
            d -= 1
            if d == 0 and ch == '}':
                rest = b[i + 1:].lstrip()
                if not rest.startswith('else'):
                    out.append(cur.strip())
                    cur = ''
        elif ch == ';' and d == 0:
            rest = b[i + 1:].lstrip()
            if not rest.startswith('else'):
                out.append(cur.strip())
                cur = ''
        i += 1
    if cur.strip():
        out.append(cur.strip())
    return [x for x in out if x]


def if_chain(st):
    """`if (c1) b1 else if (c2) b2 … [else bn]` -> [(cond text or None, body text)], or None when `st` is not an if statement"""
    out = []
    rest = st.strip()
    while True:
        m = re.match(r'if\s*\(', rest)
        if not m:
            if out:
                out.append((None, rest))
                return out
            return None
        i = m.end()
        d = 1
        while i < len(rest) and d:
            d += rest[i] == '('
            d -= rest[i] == ')'
            i += 1
        cond = rest[m.end():i - 1]
        body = rest[i:].lstrip()
        if body.startswith('{'):
            j, d = 1, 1
            while j < len(body) and d:
                d += body[j] == '{'
                d -= body[j] == '}'
                j += 1
        else:
            j = body.find(';') + 1
        out.append((cond, body[:j]))
        rest = body[j:].lstrip()
        if not rest:
            return out
        if not rest.startswith('else'):
            return None
        rest = rest[4:].lstrip()


def c_eval(cond, env):
    """value of a C condition over the integer variables of `env`; None when it mentions anything else"""
    e = cond.replace('&&', ' and ').replace('||', ' or ')
    e = re.sub(r'!(?!=)', ' not ', e)
    try:
        return bool(eval(e, {'__builtins__': {}}, dict(env)))
    except Exception:
        return None


def counter_guard_gap(st):
    """does the if-chain `st` end the run with the out-of-range error for every counter beyond the number of instances?
    Returns None when it does, ('not-a-guard', None) when `st` is not a returning chain that mentions the counter, else
    ('gap', assignment) with a concrete assignment the chain lets through (or sends to another outcome)."""
    ch = if_chain(st)
    if not ch or 'TransformationCounter' not in st:
        return ('not-a-guard', None)
    for n in range(0, 3):
        for c in range(n + 1, n + 3):
            for to in (-1, c, c + 1):
                env = {'TransformationCounter': c, 'ValidInstanceNum': n, 'ToCounter': to}
                fired = None
                for cond, body in ch:
                    v = True if cond is None else c_eval(cond, env)
                    if v:
                        fired = body
                        break
                # a branch whose condition cannot be evaluated is another precondition of the transformation: if it
                # fires the run ends in that error; the worst case for the protocol is that it does not
                if fired is None or 'return' not in fired or not re.search(r'TransError\s*=\s*Trans(MaxInstance|ToCounterTooBig)Error', fired):
                    return ('gap', env)
    return None


def c_to_py(body):
    """tiny C -> Python transpiler for if/else bodies over integer variables (assignments, returns of true/false, output
    statements, brace-less single-statement ifs); raises on anything else"""
    toks = re.findall(r'\{|\}|;|[^{};]+', body.strip()[1:-1])
    out = []

    def name(n):
        return n if n.lstrip('-').isdigit() else (repr(n) if n.startswith('Trans') and n not in ('TransformationCounter', 'TransError') else f'V[{n!r}]')

    def cond_py(c):
        c = c.replace('&&', ' and ').replace('||', ' or ')
        c = re.sub(r'!(?!=)', ' not ', c)
        return re.sub(r'\b([A-Za-z_]\w*)\b', lambda n: n.group(1) if n.group(1) in ('and', 'or', 'not') else f"V[{n.group(1)!r}]", c)

    def simple(t, ind):
        if re.match(r'^(cerr|llvm::errs\(\)|std::cerr)\s*<<', t):
            out.append('    ' * ind + 'pass')
            return
        m = re.match(r'^return\s+(true|false)$', t)
        if m:
            out.append('    ' * ind + f'return {m.group(1) == "true"}, V')
            return
        m = re.match(r'^(\w+)\s*=\s*(-?\w+)$', t)
        if m:
            out.append('    ' * ind + f'V[{m.group(1)!r}] = {name(m.group(2))}')
            return
        raise ValueError('cannot translate: ' + t[:60])
    ind = 1
    for t in toks:
        t = ' '.join(t.split())
        if not t or t in ('{', ';'):
            continue
        if t == '}':
            ind -= 1
            continue
        m = re.match(r'^(else )?if ?\(', t)
        if m:
            i, d = m.end(), 1
            while i < len(t) and d:
                d += t[i] == '('
                d -= t[i] == ')'
                i += 1
            cond, rest = t[m.end():i - 1], t[i:].strip()
            out.append('    ' * ind + ('elif ' if m.group(1) else 'if ') + cond_py(cond) + ':')
            if rest:
                simple(rest, ind + 1)        # brace-less single statement
            else:
                ind += 1
            continue
        if t == 'else':
            out.append('    ' * ind + 'else:')
            ind += 1
            continue
        if t.startswith('else '):
            out.append('    ' * ind + 'else:')
            simple(t[5:], ind + 1)
            continue
        simple(t, ind)
    src = 'def f(V):\n' + '\n'.join(out) + '\n    return None, V\n'
    ns = {}
    exec(src, {'__builtins__': {}}, ns)
    return ns['f']


def check_counter_validity_gap(body):
    """None if `Transformation::checkCounterValidity` refuses every out-of-range counter / to-counter when warnings are
    off and clamps both when they are on; else the first assignment for which it does not"""
    f = c_to_py(body)
    for n in range(0, 3):
        for c in range(1, n + 3):
            for to in (-1, c, c + 1, n + 1, n + 2):
                for warn in (False, True):
                    V = {'TransformationCounter': c, 'ValidInstanceNum': n, 'ToCounter': to, 'WarnOnCounterOutOfBounds': warn, 'TransError': 'TransSuccess'}
                    env = dict(V)
                    ok, V2 = f(V)
                    too_big = c > n or to > n
                    if not warn:
                        good = (ok is False and V2['TransError'] == 'TransMaxInstanceError') if too_big else (ok is True and V2['TransError'] == 'TransSuccess')
                    else:
                        good = ok is True and V2['TransformationCounter'] <= n and V2['ToCounter'] <= n
                    if not good:
                        return env
    return None


def check_counter_validity_compiled(body, header):
    """the same judgement with the function *compiled*: the body of `Transformation::checkCounterValidity` is put, verbatim,
    into a stub class that has the five members it uses (the error enum is copied from Transformation.h), built with g++
    and run over the same small values.  Independent of how the body is written (loops, pointers, helper locals).
    Returns None (no gap), the first mishandled assignment, or raises if it cannot be built."""
    import json as _json
    import subprocess
    import tempfile
    m = re.search(r'typedef\s+enum\s*\{([^}]*)\}\s*(\w+)\s*;', header)
    if not m or 'TransMaxInstanceError' not in m.group(1):
        raise ValueError('error enum not found in Transformation.h')
    enum_body, enum_name = m.group(1), m.group(2)
    names = [x.strip().split('=')[0].strip() for x in enum_body.split(',') if x.strip()]
    prog = '''
#include <iostream>
#include <string>
#include <cstdio>
using namespace std;
typedef enum {%s} %s;
static const char *ErrNames[] = {%s};
struct Transformation {
  int TransformationCounter; int ValidInstanceNum; int ToCounter; bool WarnOnCounterOutOfBounds; %s TransError;
  bool checkCounterValidity();
};
bool Transformation::checkCounterValidity() %s
int main() {
  for (int n = 0; n < 3; n++) for (int c = 1; c < n + 3; c++) for (int w = 0; w < 2; w++) {
    int tos[5] = {-1, c, c + 1, n + 1, n + 2};
    for (int k = 0; k < 5; k++) {
      Transformation T; T.TransformationCounter = c; T.ValidInstanceNum = n; T.ToCounter = tos[k]; T.WarnOnCounterOutOfBounds = (w != 0); T.TransError = TransSuccess;
      bool ok = T.checkCounterValidity();
      printf("%%d %%d %%d %%d %%d %%s %%d %%d\\n", n, c, tos[k], w, ok ? 1 : 0, ErrNames[(int)T.TransError], T.TransformationCounter, T.ToCounter);
    }
  }
  return 0;
}
''' % (enum_body, enum_name, ', '.join('"%s"' % x for x in names), enum_name, body)
    with tempfile.TemporaryDirectory(prefix='ccv-') as d:
        src = os.path.join(d, 'ccv.cpp')
        open(src, 'w').write(prog)
        r = subprocess.run(['g++', '-std=c++11', '-O0', '-o', os.path.join(d, 'ccv'), src], capture_output=True, text=True, timeout=120)
        if r.returncode != 0:
            raise ValueError('does not compile in the stub: ' + r.stderr[-300:])
        r = subprocess.run([os.path.join(d, 'ccv')], capture_output=True, text=True, timeout=60)
        if r.returncode != 0:
            raise ValueError('stub program failed')
    for line in r.stdout.split('\n'):
        if not line.strip() or line.startswith('Warning'):
            continue
        n, c, to, w, ok, err, c2, t2 = line.split()
        n, c, to, w, ok, c2, t2 = int(n), int(c), int(to), int(w), int(ok), int(c2), int(t2)
        too_big = c > n or to > n
        if not w:
            good = (ok == 0 and err == 'TransMaxInstanceError') if too_big else (ok == 1 and err == 'TransSuccess')
        else:
            good = ok == 1 and c2 <= n and t2 <= n
        if not good:
            return {'TransformationCounter': c, 'ValidInstanceNum': n, 'ToCounter': to, 'WarnOnCounterOutOfBounds': bool(w), 'TransError': 'TransSuccess'}
    return None


class Extractor:
    def __init__(self, repo):
        self.D = os.path.join(str(repo), 'clang_delta')
        self.src = {os.path.basename(f): strip_comments(open(f, errors='replace').read())
                    for f in sorted(glob.glob(self.D + '/*.cpp') + glob.glob(self.D + '/*.h'))}
        self.allfuncs = {}
        self.allclasses = {}
        for f, s in self.src.items():
            for k, v in functions(s).items():
                self.allfuncs.setdefault(k, []).extend(v)
            self.allclasses.update(classes(s))

    def registrations(self):
        regs = []
        for f, s in self.src.items():
            for m in re.finditer(r'static\s+RegisterTransformation<\s*(\w+)[^>]*>\s*\w+\s*\(\s*"([^"]+)"', s):
                regs.append((m.group(2), m.group(1), f))
        return sorted(regs)

    def multi_rewrite_classes(self):
        out = set()
        for f, s in self.src.items():
            # constructor initialiser passing true as third argument to Transformation(...)
            for m in re.finditer(r'\b(\w+)\s*\([^)]*\)\s*:\s*Transformation\s*\(\s*\w+\s*,\s*\w+\s*,\s*true\s*\)', s):
                out.add(m.group(1))
        return out

    def is_rewriting(self, cls, text, seen=None, depth=0):
        seen = seen if seen is not None else set()
        if REW.search(text):
            return True
        if depth > 4:
            return False
        for m in re.finditer(r'\b(\w+)\s*\(', text):
            name = m.group(1)
            if (cls, name) in self.allfuncs and (cls, name) not in seen:
                seen.add((cls, name))
                if any(self.is_rewriting(cls, b, seen, depth + 1) for b in self.allfuncs[(cls, name)]):
                    return True
        for m in re.finditer(r'(\w+)\s*(?:->|\.)\s*(?:Traverse|Visit)\w+\s*\(|(\w+)\s*\([^()]*\)\s*\.\s*(?:Traverse|Visit)\w+\(', text):
            var = m.group(1) or m.group(2)
            vt = None
            if var in self.allclasses:
                vt = var
            else:
                for f, s in self.src.items():
                    mm = re.search(r'\b(\w+)\s*\*\s*' + re.escape(var) + r'\s*;', s)
                    if mm and mm.group(1) in self.allclasses:
                        vt = mm.group(1)
                        break
                    mm = re.search(re.escape(var) + r'\s*=\s*new\s+(\w+)', s)
                    if mm and mm.group(1) in self.allclasses:
                        vt = mm.group(1)
                        break
                    mm = re.search(r'\b(\w+)\s+' + re.escape(var) + r'\s*\(', s)
                    if mm and mm.group(1) in self.allclasses:
                        vt = mm.group(1)
                        break
            if vt and ('V', vt) not in seen:
                seen.add(('V', vt))
                vb = self.allclasses[vt] + ''.join(''.join(v) for (c, n), v in self.allfuncs.items() if c == vt)
                if REW.search(vb):
                    return True
                for mm in re.finditer(r'(?:ConsumerInstance|Consumer)\s*->\s*(\w+)\s*\(', vb):
                    if (cls, mm.group(1)) in self.allfuncs and (cls, mm.group(1)) not in seen:
                        seen.add((cls, mm.group(1)))
                        if any(self.is_rewriting(cls, b, seen, depth + 1) for b in self.allfuncs[(cls, mm.group(1))]):
                            return True
        return False

    def skeleton(self, cls):
        """list of clause kinds: q (query return), c (counter check, not warn-aware), w (checkCounterValidity, warn-aware),
        r (rewriting), n (non-rewriting); None if the unit has no HandleTranslationUnit"""
        bodies = self.allfuncs.get((cls, 'HandleTranslationUnit'))
        if not bodies:
            return None
        kinds = []
        locals_ = {}       # local booleans / integers defined by one expression: inlined where they are used later
        for st in split_stmts(bodies[0]):
            md = re.match(r'^(?:const\s+)?(?:bool|int|unsigned)\s+(?:const\s+)?(\w+)\s*=\s*(.+?);?$', st, re.S)
            if md and 'new ' not in md.group(2):
                locals_[md.group(1)] = '(' + md.group(2).strip() + ')'
            for nm_, ex_ in locals_.items():
                if not (md and md.group(1) == nm_):
                    st = re.sub(r'\b' + re.escape(nm_) + r'\b', lambda _m, e=ex_: e, st)
            if re.match(r'if\s*\(\s*QueryInstanceOnly\s*\)', st) and 'return' in st:
                kinds.append('q')
            elif 'checkCounterValidity' in st and 'return' in st:
                kinds.append('w')
            elif 'TransMaxInstanceError' in st and 'TransformationCounter' in st and 'return' in st and counter_guard_gap(st) is None:
                kinds.append('c')
            elif self.is_rewriting(cls, st):
                kinds.append('r')
            elif re.search(r'\breturn\b', st) and 'TransError' not in st:
                kinds.append('x')       # a way out of the function that neither answers a query nor reports an error
            else:
                kinds.append('n')
        return kinds

    def conventions(self):
        cd = self.src.get('ClangDelta.cpp', '')
        tm = self.src.get('TransformationManager.cpp', '')
        m = re.search(r'static\s+int\s+ErrorCode\s*=\s*(-?\d+)\s*;', cd)
        default_error = int(m.group(1)) if m else None
        m = re.search(r'int\s+TransformationManager::ErrorInvalidCounter\s*=\s*(-?\d+)\s*;', tm)
        invalid_counter = int(m.group(1)) if m else None
        die_uses_errorcode = bool(re.search(r'static\s+void\s+Die\s*\([^)]*\)\s*\{[^}]*exit\s*\(\s*ErrorCode\s*\)', cd))
        main_returns_zero = bool(re.search(r'TransformationManager::Finalize\(\);\s*return\s+0\s*;', cd))
        msgs = re.findall(r'<<\s*"(Available transformation instances: )"', tm)
        # which stream each message goes to
        out_msg = re.search(r'outputNumTransformationInstances\(\)\s*\{[^}]*llvm::outs\(\)\s*<<\s*"([^"]*)"', tm)
        err_msg = re.search(r'outputNumTransformationInstancesToStderr\(\)\s*\{[^}]*cerr\s*<<\s*"([^"]*)"', tm)
        ccv_ok, ccv_gap = False, 'function not found'
        ccv_how = 'none'
        for b in self.allfuncs.get(('Transformation', 'checkCounterValidity'), []):
            # first choice: the function compiled as it is (g++) inside a stub class; second: the small C reader
            try:
                ccv_gap = check_counter_validity_compiled(b, self.src.get('Transformation.h', ''))
                ccv_ok = ccv_gap is None
                ccv_how = 'compiled'
            except Exception as e1:      # noqa: BLE001
                try:
                    ccv_gap = check_counter_validity_gap(b)
                    ccv_ok = ccv_gap is None
                    ccv_how = 'transpiled'
                except Exception as e:       # a body neither can follow is not silently accepted — but it is not a failing input either
                    ccv_ok, ccv_gap = False, f'unreadable: {e}; not compilable in the stub: {e1}'
                    ccv_how = 'unreadable'
        dt = (self.allfuncs.get(('TransformationManager', 'doTransformation')) or [''])[0]
        iq = dt.find('if (QueryInstanceOnly)')
        io = dt.find('getOutStream()')
        query_before_output = iq >= 0 and io >= 0 and iq < io and bool(re.match(r'if \(QueryInstanceOnly\)\s*\{?\s*return true;', dt[iq:]))
        # nothing a query executes on its way there opens a file for writing either (verify() runs for every mode)
        opener = re.compile(r'raw_fd_ostream|getOutStream\s*\(|ofstream|fopen\s*\(')
        pre = dt[:iq] if iq >= 0 else dt
        for b in self.allfuncs.get(('TransformationManager', 'verify'), []):
            pre += b
        query_before_output = query_before_output and not opener.search(pre)
        return {'check_counter_validity_ok': ccv_ok, 'check_counter_validity_gap': ccv_gap, 'check_counter_validity_how': ccv_how, 'query_returns_before_output': query_before_output,
                'default_error': default_error, 'invalid_counter': invalid_counter, 'die_uses_errorcode': die_uses_errorcode,
                'main_returns_zero': main_returns_zero, 'stdout_msg': out_msg.group(1) if out_msg else None,
                'stderr_msg': err_msg.group(1) if err_msg else None,
                'invalid_counter_on_max_instance': bool(re.search(r'isInvalidCounterError\(\)\)\s*ErrorCode\s*=\s*ErrorInvalidCounter', tm))}
