"""C06 — delta-debugging passes are complete (BinaryState + lines / line_markers / ifs / gcda / clang binary search)."""
import hashlib
import itertools
import os
import shutil
from pathlib import Path

from vlib import conclude, enc_list, fresh_dir, VERIF
import realcode
from realcode import BinaryState, RefLoop, PassResult

OBLIGATIONS = [
    'Cvise.C06.init_inv', 'Cvise.C06.step_preserves_inv', 'Cvise.C06.visit_in_range', 'Cvise.C06.granularity_halves',
    'Cvise.C06.finishes_at_single', 'Cvise.C06.completes', 'Cvise.C06.no_accept_no_single', 'Cvise.C06.monotone_exact',
    'Cvise.C06.monotone_exact_total',
    'Cvise.C06.gcda_invariant', 'Cvise.C06.gcda_visit_in_range', 'Cvise.C06.gcda_finishes_at_single', 'Cvise.C06.gcda_completes',
    'Cvise.C06.gcda_no_accept_no_single', 'Cvise.C06.gcda_monotone_exact', 'Cvise.C06.gcda_monotone_exact_total', 'Cvise.C06.gcda_trace_is_run', 'Cvise.C06.gcda_bytes_are_items',
    'Cvise.C06.ifs_invariant', 'Cvise.C06.ifs_visit_in_range', 'Cvise.C06.ifs_completes', 'Cvise.C06.ifs_no_accept_no_single',
    'Cvise.C06.ifs_monotone_exact', 'Cvise.C06.ifs_monotone_exact_total', 'Cvise.C06.ifs_trace_is_run', 'Cvise.C06.ifs_sticky_value',
    'Cvise.gen_advance_eq', 'Cvise.gen_aos_eq', 'Cvise.gen_create_eq', 'Cvise.gen_end_eq', 'Cvise.gen_realChunk_eq',
]


def show_bs(s):
    if s is None:
        return 'N'
    return f'{s.index},{s.chunk},{s.instances},{s.end()},{s.real_chunk()}'


def bs_invariant(s):
    return s is None or (0 <= s.index < s.instances and s.chunk >= 1 and s.index < s.end() <= s.instances)


# ------------------------------------------------------------------ A: raw cursor
def cursor_paths(n, cap):
    """all verdict paths (accept removes the requested chunk) for n instances, as op lists"""
    out = []
    s0 = BinaryState.create(n)
    stack = [(s0, [])]
    while stack and len(out) < cap:
        s, ops = stack.pop()
        if s is None:
            out.append(ops)
            continue
        stack.append((s.advance(), ops + ['a']))
        k = s.instances - s.real_chunk()
        s2 = s.copy().advance_on_success(k)
        stack.append((s2, ops + [f's{k}']))
    return out


def run_real_cursor(n, ops):
    s = BinaryState.create(n)
    states = [s]
    for op in ops:
        if s is None:
            break
        if op == 'a':
            before = (s.index, s.chunk, s.instances)
            t = s.advance()
            if (s.index, s.chunk, s.instances) != before:
                raise AssertionError('advance mutated its argument')
            s = t
        else:
            s = s.copy().advance_on_success(int(op[1:]))
        states.append(s)
    return states


def part_cursor(ctx, diffs):
    nmax = 6 if ctx.tier == 'quick' else 8
    cases = []
    for n in range(0, nmax + 1):
        for ops in cursor_paths(n, 4000 if ctx.tier == 'quick' else 60000):
            cases.append((n, ops, 'tree'))
    for _ in range(300 if ctx.tier == 'quick' else 5000):
        n = ctx.rng.randint(0, 40)
        ops = []
        cur = n
        for _ in range(ctx.rng.randint(1, 30)):
            if ctx.rng.random() < 0.6:
                ops.append('a')
            else:
                cur = ctx.rng.randint(0, cur) if ctx.rng.random() < 0.8 else cur
                ops.append(f's{cur}')
        cases.append((n, ops, 'random'))
    lines, reals = [], []
    for n, ops, kind in cases:
        try:
            states = run_real_cursor(n, ops)
        except AssertionError as e:
            ctx.report('cursor-mutated', str(e), {'kind': 'bin', 'n': n, 'ops': ops})
            continue
        ctx.count()
        # direct oracle: range invariants, halving, finishing at chunk 1
        for i, s in enumerate(states):
            if not bs_invariant(s):
                ctx.report('cursor-out-of-range', f'cursor {show_bs(s)} violates index<end<=instances', {'kind': 'bin', 'n': n, 'ops': ops[:i]})
                break
            if i and s is not None and states[i - 1] is not None:
                p = states[i - 1]
                # the property asks for every granularity down to 1 to be reached, not for halving as such:
                # a smaller chunk must restart at index 0 (otherwise part of that granularity is skipped)
                if not (s.chunk == p.chunk or (1 <= s.chunk < p.chunk and s.index == 0)):
                    ctx.report('granularity-skipped', f'chunk {p.chunk}->{s.chunk} index {s.index}', {'kind': 'bin', 'n': n, 'ops': ops[:i]})
                    break
            if s is None and i and states[i - 1] is not None:
                p = states[i - 1]
                op = ops[i - 1]
                if p.chunk != 1 and not (op != 'a' and int(op[1:]) == 0):
                    ctx.report('finished-early', f'run finished at chunk {p.chunk}', {'kind': 'bin', 'n': n, 'ops': ops[:i]})
        if any(o != 'a' for o in ops) and 'a' in ops:
            ctx.nontrivial(('bin', n, tuple(ops)))
        lines.append('bin ' + str(n) + ''.join(' ' + o for o in ops))
        reals.append(' '.join(show_bs(s) for s in states))
    outs = ctx.model(lines)
    for (n, ops, kind), r, m in zip(cases, reals, outs):
        if r != m:
            diffs.append({'kind': 'bin', 'n': n, 'ops': ops, 'real': r, 'model': m})
    ctx.sample({'kind': 'bin', 'line': lines[len(lines) // 2], 'observed': reals[len(lines) // 2]})
    ctx.notes['cursor_cases'] = len(cases)


# ------------------------------------------------------------------ B: real passes through the reference loop
def make_pass(name):
    if name == 'lines':
        from cvise.passes.lines import LinesPass
        return LinesPass('None', {})
    if name == 'line_markers':
        from cvise.passes.line_markers import LineMarkersPass
        return LineMarkersPass(None, {})
    if name == 'ifs':
        # instances = the #if directives; each range is tried as `#if 0` and as `#if 1` (scripted unifdef resolves them)
        from cvise.passes.ifs import IfPass
        return IfPass(None, {'unifdef': str(VERIF / 'tools' / 'standins' / 'unifdef')})
    if name == 'gcda':
        # instances = the functions `gcov-dump -p` reports (scripted stand-in: one record line per function)
        from cvise.passes.gcdabinary import GCDABinaryPass
        return GCDABinaryPass('None', {'gcov-dump': str(VERIF / 'tools' / 'standins' / 'gcov-dump')})
    raise KeyError(name)


def item_text(name, i):
    if name == 'gcda':
        return f'F{i}:payload-{i}-{"x" * (i % 3)}\n'
    if name == 'ifs':
        return f'#if C{i}\n'
    if name == 'lines':
        # old-Mac line ends: Python's text mode ends a line at a bare carriage return too, so such a line is an instance
        cr = LINE_END[0] == 'cr-all' or (LINE_END[0] == 'cr-alt' and i % 2 == 0)
        return f'L{i};' + ('\r' if cr else '\n')
    return f'# {i + 1} "f{i}.h"\n'


LINE_END = ['lf']          # 'lf' | 'cr-alt' (every other line of the lines pass ends in a bare CR) | 'cr-all'
FINAL_NEWLINE = [True]     # the variant without a terminating newline on the last line is run as well


def build_file(name, n):
    """returns (text, item lines)"""
    if name == 'lines':
        text = ''.join(item_text(name, i) for i in range(n))
    elif name == 'gcda':
        return 'HDR toy coverage file\n' + ''.join(item_text(name, i) for i in range(n))
    elif name == 'ifs':
        return 'int keep0;\n' + ''.join(item_text(name, i) + f'int body{i};\n#endif\n' + ('int between;\n' if i % 2 else '') for i in range(n))
    else:
        parts = ['int keep0;\n']
        for i in range(n):
            if i == n - 1 and not FINAL_NEWLINE[0]:
                parts.append('int last;\n')         # so that the last marker is the last line of the file
            parts.append(item_text(name, i))
            if i % 2 == 0 and (FINAL_NEWLINE[0] or i != n - 1):
                parts.append(f'int x{i};\n')
        text = ''.join(parts)
    return text if FINAL_NEWLINE[0] or not text else text[:-1]


def items_of(name, n, text):
    present = []
    lines = text.replace('\r', '\n').split('\n')
    for i in range(n):
        if item_text(name, i).rstrip('\r\n') in lines:
            present.append(i)
    return present


def bodies_ok(n, text, vmode):
    """ifs with a value-sensitive test: '1' = every block body must still be there (only `#if 1` resolutions pass),
    '0' = a body is there iff its directive is (only `#if 0` resolutions pass)"""
    lines = text.split('\n')
    for i in range(n):
        body = f'int body{i};' in lines
        if vmode == '1' and not body:
            return False
        if vmode == '0' and body != (item_text('ifs', i).rstrip('\n') in lines):
            return False
    return True


def run_pass_case(ctx, name, n, test_items, wd, vmode='b'):
    """test_items: function(list of present item ids) -> bool.  Returns (trace string, final items, details)."""
    d = fresh_dir(ctx, 'c06')
    path = d / 'a.c'
    path.write_text(build_file(name, n))
    p = make_pass(name)

    def test(cand):
        text = Path(cand).read_text()
        return test_items(items_of(name, n, text)) and (vmode == 'b' or bodies_ok(n, text, vmode))

    loop = RefLoop(p, path, test, d, max_steps=4 * n * n + 8 * n + 10)
    table = {}

    def on_cand(rec):
        its = items_of(name, n, rec['after'].decode())
        table[tuple(its)] = rec['accepted'] if vmode == 'b' else test_items(its)
        rec['items_after'] = its
        rec['items_before'] = items_of(name, n, rec['before'].decode())
    loop.on_candidate = on_cand
    loop.raised = None
    try:
        loop.run()
    except Exception as e:  # noqa: BLE001 — a pass method that raises on a cursor the driver reaches
        import traceback
        loop.raised = f'{type(e).__name__}: {e} @ ' + ' < '.join(f'{f.name}:{f.lineno}' for f in reversed(traceback.extract_tb(e.__traceback__)[-3:]))
    final = items_of(name, n, path.read_text())
    final_text = path.read_text()
    shutil.rmtree(d, ignore_errors=True)
    return loop, final, final_text, table


def judge_pass_case(ctx, name, n, label, loop, final, final_text, required, test_items):
    scen = {'kind': 'pass', 'pass': name, 'n': n, 'test': label, 'final_newline': FINAL_NEWLINE[0], 'line_end': LINE_END[0]}
    if loop.timed_out:
        ctx.report('no-termination', f'{name} did not finish within {loop.max_steps} candidates', scen)
        return
    if getattr(loop, 'raised', None):
        ctx.report('pass-raises-on-a-reachable-cursor', f'{name}: {loop.raised}'[:380], scen)
        return
    accepted_any = any(r['accepted'] for r in loop.trace)
    for r in loop.trace:
        st = r['state']
        cur = r['items_before']
        i, c, inst = st['index'], st['chunk'], st['instances']
        e = min(i + c, inst)
        if not (0 <= i < e <= inst == len(cur)):
            ctx.report('range-out-of-bounds', f'{name}: requested [{i},{e}) of {inst} instances while {len(cur)} exist', scen)
            return
        if r['result'] == 'OK' and r['items_after'] != cur[:i] + cur[e:]:
            ctx.report('wrong-chunk-removed', f'{name}: candidate is not the input minus instances [{i},{e})', scen)
            return
    if loop.trace:
        last = loop.trace[-1]['state']
        if last['chunk'] != 1 and final:
            ctx.report('finished-early', f'{name}: run ended at chunk size {last["chunk"]}', scen)
            return
    if required is not None:
        if final != sorted(required):
            ctx.report('monotone-not-exact', f'{name}: result {final} != required subset {sorted(required)}', scen)
            return
        # everything that is not an instance must be untouched (ifs: a resolved `#if 0` takes its block along, judged by the
        # instances only)
        expect = final_text if name == 'ifs' else ''.join(l for l in build_file(name, n).splitlines(keepends=True)
                         if not any(l.rstrip('\r\n') == item_text(name, j).rstrip('\r\n') for j in range(n) if j not in required))
        # (text mode turns a bare CR into LF when the candidate is written: F8, judged in C07; here only the instances count)
        if final_text.replace('\r', '\n') != expect.replace('\r', '\n'):
            ctx.report('non-instance-text-changed', f'{name}: text outside the removed instances changed', scen)
            return
    if not accepted_any:
        for j in range(n):
            if test_items([x for x in range(n) if x != j]):
                ctx.report('single-instance-left-untried', f'{name}: nothing accepted although instance {j} alone is removable', scen)
                return


def trace_str(loop, final, with_value=False):
    t = []
    for r in loop.trace:
        st = r['state']
        e = min(st['index'] + st['chunk'], st['instances'])
        t.append(f"{st['index']}-{e}{('/' + str(st.get('value'))) if with_value else ''}{'A' if r['accepted'] else 'R'}")
    return f"{' '.join(t)} => {enc_list(final)}"


def hash_pred(seed, density):
    def f(items):
        h = hashlib.sha1(f'{seed}:{items}'.encode()).digest()
        return h[0] < density
    return f


def part_passes(ctx, diffs, deep=False):
    nmax = (7 if ctx.tier == 'quick' else 10) + (1 if deep else 0)
    lines, reals, scens = [], [], []
    for name, nl in (('lines', True), ('line_markers', True), ('lines', False), ('line_markers', False), ('gcda', True), ('ifs', True),
                     ('lines', 'cr-alt'), ('lines', 'cr-all')):
        LINE_END[0] = nl if isinstance(nl, str) else 'lf'
        cr_variant = isinstance(nl, str)
        nl = True if cr_variant else nl
        FINAL_NEWLINE[0] = nl
        for n in range(0, (nmax if nl and not cr_variant and name not in ('gcda', 'ifs') else 5) + 1):
            for mask in range(1 << n):
                req = [i for i in range(n) if mask >> i & 1]
                ti = (lambda its, req=req: all(r in its for r in req))
                loop, final, ftxt, table = run_pass_case(ctx, name, n, ti, None)
                ctx.count()
                judge_pass_case(ctx, name, n, {'required': req}, loop, final, ftxt, req, ti)
                if 0 < len(req) < n:
                    ctx.nontrivial(('req', name, n, mask))
                if name == 'gcda':
                    # restart after every accepted removal: the gcda run of the model (Model/BinaryVariants.lean)
                    lines.append(f'binrung {n} R {enc_list(req)}')
                    reals.append(trace_str(loop, final))
                    scens.append({'kind': 'pass', 'pass': name, 'n': n, 'required': req, 'final_newline': nl})
                    continue
                if name == 'ifs':
                    # the cursor with its value: the ifs run of the model; value-blind test, then tests that accept only
                    # `#if 1` / only `#if 0` resolutions (the value stays as it is across an accepted removal)
                    lines.append(f'binruni {n} b R {enc_list(req)}')
                    reals.append(trace_str(loop, final, with_value=True))
                    scens.append({'kind': 'pass', 'pass': name, 'n': n, 'required': req, 'final_newline': nl})
                    for vmode in ('0', '1'):
                        loop, final, ftxt, table = run_pass_case(ctx, name, n, ti, None, vmode=vmode)
                        ctx.count()
                        judge_pass_case(ctx, name, n, {'required': req, 'vmode': vmode}, loop, final, ftxt, None, ti)
                        lines.append(f'binruni {n} {vmode} R {enc_list(req)}')
                        reals.append(trace_str(loop, final, with_value=True))
                        scens.append({'kind': 'pass', 'pass': name, 'n': n, 'required': req, 'vmode': vmode, 'final_newline': nl})
                        if 0 < len(req) < n:
                            ctx.nontrivial(('req', name, n, mask, vmode))
                    continue
                lines.append(f'binrun {n} {enc_list(req)}')
                reals.append(trace_str(loop, final))
                scens.append({'kind': 'pass', 'pass': name, 'n': n, 'required': req, 'final_newline': nl, 'line_end': LINE_END[0]})
        if not nl or cr_variant:
            FINAL_NEWLINE[0] = True
            LINE_END[0] = 'lf'
            continue
        # arbitrary (non-monotone) deterministic predicates
        for k in range((60 if name not in ('gcda', 'ifs') else 30) if ctx.tier == 'quick' else 600):
            n = ctx.rng.randint(1, 12 if name not in ('gcda', 'ifs') else 7)
            dens = ctx.rng.choice([0, 40, 100, 180])
            ti = hash_pred((ctx.seed, name, k), dens)
            vmode = ctx.rng.choice(['b', 'b', '0', '1']) if name == 'ifs' else 'b'
            loop, final, ftxt, table = run_pass_case(ctx, name, n, ti, None, vmode=vmode)
            ctx.count()
            judge_pass_case(ctx, name, n, {'hash': [ctx.seed, name, k], 'density': dens, 'vmode': vmode}, loop, final, ftxt, None, ti)
            if any(r['accepted'] for r in loop.trace) and any(not r['accepted'] for r in loop.trace):
                ctx.nontrivial(('hash', name, n, k))
            tbl = ';'.join(f'{enc_list(list(c))}:{1 if v else 0}' for c, v in table.items()) or '-'
            if name == 'gcda':
                lines.append(f'binrung {n} T {tbl}')
            elif name == 'ifs':
                lines.append(f'binruni {n} {vmode} T {tbl}')
            else:
                lines.append(f'binrunt {n} {tbl}')
            reals.append(trace_str(loop, final, with_value=(name == 'ifs')))
            scens.append({'kind': 'pass', 'pass': name, 'n': n, 'hash': [ctx.seed, name, k], 'density': dens, 'vmode': vmode})
    outs = ctx.model(lines)
    for sc, r, m, ln in zip(scens, reals, outs, lines):
        if r != m:
            diffs.append({**sc, 'line': ln, 'real': r, 'model': m})
    ctx.sample({'kind': 'pass', 'scenario': scens[len(scens) // 3], 'line': lines[len(lines) // 3], 'observed': reals[len(lines) // 3]})
    ctx.notes['pass_cases'] = len(lines)


def replay(ctx, scen):
    """re-run one recorded scenario against the real code and judge it directly"""
    if scen.get('kind') == 'bin':
        states = run_real_cursor(scen['n'], scen['ops'] + ['a'])
        for i, s in enumerate(states):
            if not bs_invariant(s):
                ctx.report(scen.get('signature', 'cursor-out-of-range'), f'cursor {show_bs(s)} violates index<end<=instances', scen)
    elif scen.get('kind') == 'pass':
        t = scen.get('test', scen)
        if 'required' in t:
            req = t['required']
            ti = (lambda its: all(r in its for r in req))
        else:
            req = None
            ti = hash_pred(tuple(t['hash']), t.get('density', scen.get('density', 100)))
        FINAL_NEWLINE[0] = scen.get('final_newline', True)
        LINE_END[0] = scen.get('line_end', 'lf')
        vmode = t.get('vmode', scen.get('vmode', 'b'))
        loop, final, ftxt, table = run_pass_case(ctx, scen['pass'], scen['n'], ti, None, vmode=vmode)
        judge_pass_case(ctx, scen['pass'], scen['n'], t, loop, final, ftxt, req if vmode == 'b' else None, ti)
    print('replayed', scen.get('kind'), '->', 'fails' if ctx.violations else 'holds')


def run(ctx):
    if ctx.replay:
        import json
        replay(ctx, json.load(open(ctx.replay)))
        return 1 if ctx.violations else 0
    ctx.lean_gate(OBLIGATIONS)
    diffs = []
    part_cursor(ctx, diffs)
    part_passes(ctx, diffs)

    def search(budget):
        part_passes(ctx, [], deep=True)
    conclude(ctx, diffs, search)
    ctx.assumptions += [
        'int(chunk / 2) equals floor division for chunk < 2^53',
        'ifs / gcda / clang binary search share BinaryState; their pass-specific glue is tied in C15 and the pass explorer',
    ]
    return ctx.finish(
        obligations=OBLIGATIONS,
        rule='cursor: every accept/reject path of BinaryState for n<=%d plus seeded random op sequences (non-trivial: contains both ops); '
             'passes: real LinesPass(None)/LineMarkersPass under the reference loop, all 2^n required subsets (non-trivial: proper non-empty subset) '
             'and seeded hash predicates (non-trivial: at least one accept and one reject); each compared with the Lean model and judged directly' % (6 if ctx.tier == 'quick' else 8),
        extra={'parts': ctx.notes, 'exhaustive': True})
