"""Access to the real implementation under /repo (imported, never copied) + the textbook reference loop."""
import copy
import os
import shutil
import sys
from pathlib import Path

from vlib import REPO

if str(REPO) not in sys.path:
    sys.path.insert(0, str(REPO))

from cvise.passes.abstract import AbstractPass, BinaryState, PassResult, ProcessEventNotifier  # noqa: E402


def snapshot(obj):
    """deep, comparable rendering of a pass cursor"""
    if obj is None or isinstance(obj, (int, str, bool, float, bytes)):
        return obj
    if isinstance(obj, (list, tuple)):
        return [snapshot(x) for x in obj]
    if isinstance(obj, dict):
        return {repr(k): snapshot(v) for k, v in sorted(obj.items(), key=lambda kv: repr(kv[0]))}
    if hasattr(obj, 'span') and hasattr(obj, 'group'):   # re.Match
        return ['match', obj.span(), obj.group(0)]
    if hasattr(obj, '__dict__'):
        return {'__class__': type(obj).__name__, **{k: snapshot(v) for k, v in sorted(vars(obj).items())}}
    return repr(obj)


class RefLoop:
    """One-candidate-at-a-time greedy loop on a real pass object: the reference the properties speak about.
    `test(path) -> bool`.  Records every candidate.  `max_steps` is the watchdog for C03."""

    def __init__(self, pass_, path, test, workdir, max_steps=100000, notifier=None):
        self.p = pass_
        self.path = Path(path)
        self.test = test
        self.workdir = Path(workdir)
        self.max_steps = max_steps
        self.trace = []          # dict per candidate
        self.steps = 0
        self.notifier = notifier or ProcessEventNotifier(None)
        self.timed_out = False
        self.on_candidate = None

    def run(self, check_sanity=None):
        p = self.p
        state = p.new(str(self.path), check_sanity)
        while state is not None:
            self.steps += 1
            if self.steps > self.max_steps:
                self.timed_out = True
                return
            cand_dir = self.workdir / f'c{self.steps}'
            cand_dir.mkdir()
            cand = cand_dir / self.path.name
            shutil.copy2(self.path, cand)
            before = self.path.read_bytes()
            snap = snapshot(state)
            (result, st2) = p.transform(str(cand), state, self.notifier)
            after = cand.read_bytes()
            leftovers = sorted(x.name for x in cand_dir.iterdir() if x.name != self.path.name)
            ok = result == PassResult.OK
            verdict = bool(ok and self.test(cand))
            rec = {'state': snap, 'result': result.name, 'before': before, 'after': after, 'accepted': verdict,
                   'leftovers': leftovers, 'state_obj': state}
            self.trace.append(rec)
            if self.on_candidate:
                self.on_candidate(rec)
            if verdict:
                shutil.copy(cand, self.path)
                state = p.advance_on_success(str(cand), st2)
            elif result == PassResult.STOP or result == PassResult.ERROR:
                state = None
            else:
                state = p.advance(str(self.path), state)
            shutil.rmtree(cand_dir, ignore_errors=True)
