"""shared driver of the real-pool checks C04 / C05 / C08"""
import json

from vlib import conclude
import drvlib as D
import worldlib as W


def scenario_list(ctx, which):
    rng = ctx.rng
    quick = ctx.tier == 'quick'
    base = [W.scen_basic(rng), W.scen_faults(rng), W.scen_mess(rng), W.scen_noise(rng), W.scen_zero(rng), W.scen_die(rng),
            W.scen_error_pass(rng), W.scen_grow(rng), W.scen_save_temps(rng), W.scen_tidy(rng), W.scen_dotdot(rng),
            W.scen_modes(rng, False), W.scen_modes(rng, True), W.scen_insane(rng), W.scen_format_insane(rng), W.scen_skip_sanity(rng), W.scen_vanish(rng), W.scen_die_busy(rng), W.scen_helper_hangs(rng),
            W.scen_main_helper_hangs(rng, 'clang'), W.scen_main_helper_hangs(rng, 'gcda'), W.scen_stdin_closed(rng)]
    passes = [p for p in W.REAL_PASSES if p != 'peep' or not quick]
    real = [W.scen_real_pass(rng, w) for w in passes]
    if not quick:
        for _ in range(6):
            base += [W.scen_basic(rng), W.scen_faults(rng)]
    if which == 'C04':
        keep = ['basic', 'mess', 'tidy', 'save-temps', 'helper-error', 'zero-size', 'die-on-pass-bug', 'growth-bailout', 'modes:stub', 'modes:lines0', 'skip-sanity']
        return [s for s in base if s['name'] in keep] + [s for s in real if s['name'].split(':')[1] in ('lines0', 'ifs', 'blank', 'unifdef')]
    if which == 'C05':
        latin = [W.scen_real_pass_latin1(rng, w) for w in ('line_markers', 'blank', 'includes', 'comments', 'linesNone', 'lines0', 'ifs', 'unifdef', 'balanced', 'ints')]
        return [s for s in base if s['name'] in ('basic', 'faults', 'mess', 'dotdot', 'growth-bailout', 'format-insane')] + real + latin
    if which == 'C08':
        return [s for s in base if s['name'] != 'dotdot'] + [s for s in real if s['name'].split(':')[1] in ('ifs', 'lines0', 'linesNone')]
    return base + real


def run_world(ctx, which, obligations, oracle, rule, extra_oracles=(), shim_part=None):
    if ctx.replay:
        scen = json.load(open(ctx.replay))['scenario']
        obs = W.run(ctx, scen)
        for orc in (oracle,) + tuple(extra_oracles):
            sig = orc(scen, obs) if 'before' in obs else W.oracle_completes(scen, obs)
            if sig:
                ctx.report(sig, sig, {'scenario': scen})
        print('replayed', scen['name'], '->', 'fails' if ctx.violations or ctx.known_hits else 'holds', obs['outcome'])
        return 1 if ctx.violations else 0
    ctx.lean_gate(obligations)
    diffs = []
    names = {}
    from concurrent.futures import ThreadPoolExecutor
    sl = scenario_list(ctx, which)
    with ThreadPoolExecutor(max_workers=4) as ex:
        results = list(ex.map(lambda sc: W.run(ctx, sc), sl))
    for scen, obs in zip(sl, results):
        ctx.count()
        names[scen['name']] = obs['outcome']
        sigs = []
        c = W.oracle_completes(scen, obs)
        if c:
            sigs.append(c)
        if 'before' in obs:
            for orc in (oracle,) + tuple(extra_oracles):
                s = orc(scen, obs)
                if s:
                    sigs.append(s)
        for s in sigs:
            ctx.report(s, f"{scen['name']}: {s} (outcome {obs['outcome']}, tmp_left={obs.get('tmp_left')}, alive={obs.get('alive_detail')})",
                       {'kind': 'real', 'scenario': scen})
        if obs.get('invocations') and (len(obs.get('commits', [])) > 0 or scen['name'] in ('faults', 'zero-size', 'die-on-pass-bug')):
            ctx.nontrivial(scen['name'] + str(scen.get('N')))
        if len(ctx.cov['samples']) < 3 and obs.get('invocations'):
            inv = obs['invocations'][len(obs['invocations']) // 2]
            ctx.sample({'scenario': scen['name'], 'outcome': obs['outcome'], 'one_invocation': {'cwd': inv.get('cwd', '')[-40:], 'files': inv['files']},
                        'tmp_left': obs['tmp_left'], 'alive': obs['alive']})
    if shim_part:
        shim_part(ctx, diffs)
    conclude(ctx, diffs, None)
    return ctx.finish(obligations=obligations, rule=rule, extra={'real_scenarios': names})
