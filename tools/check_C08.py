"""C08 — no temporary directories or processes are left behind."""
import drvlib as D
import worldlib as W
from check_world import run_world

OBLIGATIONS = ['Cvise.C08.tmp_clean', 'Cvise.C08.shipped_shape', 'Cvise.C08.old_shape_leaks', 'Cvise.C08.old_setup_order_leaks', 'Cvise.C08.scripts_clean', 'Cvise.C08.shipped_kills',
               'Cvise.C08.old_error_exit_leaves_scripts', 'Cvise.C08.shipped_helpers_tracked']


def shim_part(ctx, diffs):
    """every exit path of run_pass under the scheduler shim (foreign exception, pass bug, zero size, faults): TMPDIR must be empty"""
    bias = {'p_contract': 0.1, 'p_faults': 0.8, 'p_small_consts': 0.5, 'p_empty': 0.4,
            'fault_kinds': ['timeout', 'foreign', 'foreign', 7, -9]}
    scens = [D.gen_scenario(ctx.rng, bias) for _ in range(250 if ctx.tier == 'quick' else 4000)]
    for s in scens:
        if ctx.rng.random() < 0.3:
            s['cfg']['die'] = True
            s['cfg']['silent'] = False

    def orc(scen, obs):
        sig = D.oracle_C08(scen, obs)
        if sig:
            return sig + ':' + obs['outcome']
        return None

    def nt(scen, obs):
        return D.scen_key(scen) if obs['outcome'] != 'ok' or scen.get('faults') else None
    D.sweep(ctx, scens, [orc], diffs, nt)


def run(ctx):
    return run_world(ctx, 'C08', OBLIGATIONS, W.oracle_C08,
                     rule='real pebble pool, real subprocesses: fast / slow / hanging-past-timeout / killed / forking tests, cancellation because an earlier candidate won, '
                          'zero-size / die-on-pass-bug / helper-error / growth / save-temps exits, passes with scratch files; after run_pass returns or raises the private TMPDIR must be empty and every pid '
                          'the instrumented script recorded (itself and its children) gone; plus all exit paths under the scheduler shim (foreign exceptions). non-trivial = run with a cancellation, fault or error exit',
                     shim_part=shim_part)
