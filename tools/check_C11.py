"""C11 — pass states are values: enumeration never disturbs scheduled candidates (pass explorer)."""
import copy
import json
import os
import pickle
import shutil
import tempfile
from pathlib import Path

from vlib import conclude, VERIF
import realcode
from realcode import snapshot
import textpasses as T
from cvise.cvise import CVise
from cvise.passes.abstract import PassResult, ProcessEventNotifier

OBLIGATIONS = ['Cvise.C11.analysis_sound', 'Cvise.C11.advance_paths_pure', 'Cvise.C11.advance_leaves_cursor_untouched',
               'Cvise.C11.transform_deterministic', 'Cvise.C11.scratch_removed', 'Cvise.C11.scratch_removed_on_every_path']

STAND = VERIF / 'tools' / 'standins'
EXT = {'unifdef': str(STAND / 'unifdef'), 'topformflat': str(STAND / 'topformflat'), 'clang_delta': str(STAND / 'clang_delta'),
       'clang-format': '/bin/true', 'clex': None, 'gcov-dump': None}
TOOL_PASSES = [('ifs', None), ('lines', '0'), ('lines', '2'), ('clangbinarysearch', 'remove-unused-function'), ('clang', 'remove-unused-function'),
               ('unifdef', None), ('indent', 'regular')]
TOOL_TEXT = 'I0;\n#if FOO\nint a;\n#else\nI1;\n#endif\n#ifdef X\nI2;\n#endif\nint f() { I3; }\n#if BAR\nI4;\n#endif\n'


def make(name, arg):
    if (name, arg) in T.PASSES:
        return T.make(name, arg)
    p = CVise.pass_name_mapping[name](arg, dict(EXT))
    p.max_transforms = None
    p.user_clang_delta_std = 'c++17'
    p.clang_delta_preserve_routine = None
    return p


IFS5 = ''.join(f'#if C{j}\nI{j};\n#endif\n' for j in range(5)) + 'int tail;\n'      # five blocks: chunk sizes 5, 2, 1 with a clipped last chunk
IFS4 = ''.join(f'#if D{j}\nI{j};\n#endif\n' for j in range(4))
ILL_TEXTS = [TOOL_TEXT.rsplit('#endif\n', 1)[0] + 'I5;\n', '#endif\n' + TOOL_TEXT, TOOL_TEXT + '#else\nI6;\n']     # unbalanced conditionals: the helper fails


def explore(ctx, name, arg, text, hist, d, tool_fail=None):
    """drive one history; at every step check the value properties; returns signature or None"""
    os.environ.pop('STANDIN_FAIL', None)
    if tool_fail:
        os.environ['STANDIN_FAIL'] = str(tool_fail)
    try:
        return explore1(ctx, name, arg, text, hist, d)
    finally:
        os.environ.pop('STANDIN_FAIL', None)


def explore1(ctx, name, arg, text, hist, d):
    os.environ['CD_SCEN'] = str(d / 'cd.json')
    os.environ['CD_LOG'] = str(d / 'cd.log')
    (d / 'cd.json').write_text('{}')
    (d / 'cd.log').write_text('')
    path = d / 'a.c'
    path.write_text(text)
    p = make(name, arg)
    state = p.new(str(path), None)
    cur = path.read_text()
    steps = 0
    for a in hist:
        if state is None:
            break
        steps += 1
        before = snapshot(state)
        # (c) survives a worker round trip: cursor and bound transform
        try:
            st_rt = pickle.loads(pickle.dumps(state))
            tr_rt = pickle.loads(pickle.dumps(p.transform))
        except Exception as e:
            return f'cursor-not-picklable:{name}', steps
        if snapshot(st_rt) != before:
            return f'cursor-changes-in-pickle-round-trip:{name}', steps
        outs = []
        for k, (st_in, tr) in enumerate(((copy.deepcopy(state), p.transform), (st_rt, tr_rt), (copy.deepcopy(state), p.transform))):
            cd = Path(tempfile.mkdtemp(prefix='c-', dir=d))
            cand = cd / 'a.c'
            cand.write_text(cur)
            res, st2 = tr(str(cand), st_in, ProcessEventNotifier(None))
            left = sorted(x.name for x in cd.iterdir() if x.name != 'a.c')
            outs.append((res.name, cand.read_text(), snapshot(st2) if res == PassResult.OK else None))
            if left:
                return f'scratch-file-left-next-to-candidate:{name}', steps
            if cur != path.read_text():
                return f'transform-wrote-outside-its-file:{name}', steps
            shutil.rmtree(cd, ignore_errors=True)
        if outs[0] != outs[2]:
            return f'transform-not-deterministic:{name}', steps
        if outs[0] != outs[1]:
            return f'result-differs-after-worker-round-trip:{name}', steps
        # the real transform for this step (may legitimately record tool reports on the private copy it is given)
        cd = Path(tempfile.mkdtemp(prefix='c-', dir=d))
        cand = cd / 'a.c'
        cand.write_text(cur)
        work = copy.deepcopy(state)
        res, st2 = p.transform(str(cand), work, ProcessEventNotifier(None))
        if snapshot(state) != before:
            return f'transform-mutated-a-scheduled-cursor:{name}', steps
        if res in (PassResult.STOP, PassResult.ERROR):
            break
        # (a) advance leaves its argument untouched
        nxt = p.advance(str(path), state)
        if snapshot(state) != before:
            return f'advance-mutated-its-argument:{name}', steps
        if a and res == PassResult.OK:
            out = cand.read_text()
            path.write_text(out)
            cur = out
            state = p.advance_on_success(str(cand), st2)
        else:
            state = nxt
        shutil.rmtree(cd, ignore_errors=True)
    return None, steps


def raising_helper_probe(ctx):
    """a helper program that cannot be started, or whose report cannot be parsed, makes the pass method raise: even then
    no scratch file may stay next to the test case (the candidate's private directory holds the test cases only)"""
    probes = []
    for name, arg, key in (('clex', 'rm-toks-1', 'clex'), ('clang', 'remove-unused-function', 'clang_delta'),
                           ('clangbinarysearch', 'remove-unused-function', 'clang_delta'), ('lines', '0', 'topformflat'), ('lines', '3', 'topformflat')):
        for tool in ('/nonexistent/helper', '/etc/hostname'):       # cannot be found / cannot be executed
            probes.append((name, arg, key, tool, None))
    probes.append(('clangbinarysearch', 'remove-unused-function', 'clang_delta', str(STAND / 'failing_helper'),
                   {'mode': 'stdout', 'text': 'Available transformation instances: many\n', 'code': 0}))
    # the helper works, but the sanity check that LinesPass.new runs on the reformatted file fails with an operating-system
    # error (disk full while copying) or is interrupted
    for exc in (OSError(28, 'No space left on device'), KeyboardInterrupt()):
        probes.append(('lines', '0', 'topformflat', str(STAND / 'topformflat'), {'sanity_raises': exc}))
        probes.append(('lines', '2', 'topformflat', str(STAND / 'topformflat'), {'sanity_raises': exc}))
    for name, arg, key, tool, hs in probes:
        d = Path(tempfile.mkdtemp(prefix='rh-', dir=ctx.scratch))
        try:
            sanity_exc = (hs or {}).get('sanity_raises')
            if hs is not None and sanity_exc is None:
                (d / 'hs.json').write_text(json.dumps(hs))
                os.environ['HELPER_SCEN'] = str(d / 'hs.json')
            wd = d / 'w'
            wd.mkdir()
            f = wd / 'a.c'
            f.write_text(TOOL_TEXT)
            ext = dict(EXT)
            ext[key] = tool
            p = CVise.pass_name_mapping[name](arg, ext)
            p.max_transforms = None
            p.user_clang_delta_std = 'c++17'
            p.clang_delta_preserve_routine = None
            raised = None
            def sanity():
                if sanity_exc is not None:
                    raise sanity_exc
            try:
                st = p.new(str(f), sanity if name == 'lines' else None)
                if st is not None:
                    p.transform(str(f), st, ProcessEventNotifier(None))
            except (Exception, KeyboardInterrupt) as e:  # noqa
                raised = type(e).__name__
            ctx.count()
            left = sorted(x.name for x in wd.iterdir() if x.name != 'a.c')
            if left:
                ctx.report(f'scratch-file-left-when-the-helper-cannot-run:{name}', f'{name}::{arg} with helper {tool}: raised {raised}, left {left} next to the test case',
                           {'kind': 'raising-helper', 'pass': name, 'arg': arg})
            if raised:
                ctx.nontrivial(('raising-helper', name, arg, tool))
        finally:
            os.environ.pop('HELPER_SCEN', None)
            shutil.rmtree(d, ignore_errors=True)


def sibling_probe(ctx, name, arg, text, d, other=None):
    """candidates are a function of (content, cursor, configuration): a pass object that has just worked on one file must
    treat another file of the same base name, size and time stamp exactly as a fresh pass object does"""
    forced = other
    other = text.translate(str.maketrans('0123456789abcxyz', '1234567890bcayzx'))
    if forced is not None:
        other = forced
    elif ctx.rng.random() < 0.5 and len(text) >= 2:
        # same size, but the first / last character switches between a comma and something else (peep's delimiters
        # depend on that)
        other = (('x' if text[0] == ',' else ',') + text[1:-1] + ('x' if text[-1] == ',' else ',')) if ctx.rng.random() < 0.5 else \
            (('x' if text[0] == ',' else ',') + text[1:])
    if other == text or len(other.encode()) != len(text.encode()):
        return None
    a, b = d / 'one' / 'a.c', d / 'two' / 'a.c'
    for f, t in ((a, text), (b, other)):
        f.parent.mkdir()
        f.write_text(t)
        os.utime(f, ns=(10 ** 18, 10 ** 18))

    def drive(p, path):
        keep = path.name == 'a.c'
        st = p.new(str(path), None)
        if keep:
            os.utime(path, ns=(10 ** 18, 10 ** 18))
        outs = []
        for _ in range(3):
            if st is None:
                break
            cd = Path(tempfile.mkdtemp(prefix='c-', dir=d))
            cand = cd / path.name
            shutil.copy2(path, cand)
            res, st2 = p.transform(str(cand), copy.deepcopy(st), ProcessEventNotifier(None))
            outs.append((res.name, cand.read_text()))
            shutil.rmtree(cd, ignore_errors=True)
            if res in (PassResult.STOP, PassResult.ERROR):
                break
            st = p.advance(str(path), st)
        return snapshot(st) if st is not None else None, outs
    # the reference run uses another base name and time stamp (candidates depend on the content only), so that nothing a
    # pass may remember about `one/a.c` can apply to it
    ref = d / 'ref' / 'other_name.c'
    ref.parent.mkdir()
    ref.write_text(other)
    want = drive(make(name, arg), ref)
    used = make(name, arg)
    drive(used, a)
    got = drive(used, b)
    ctx.notes['last_sibling'] = other
    return None if got == want else f'pass-object-carries-state-between-files:{name}'


FRESH = r'''
import json, sys, copy, shutil, tempfile
from pathlib import Path
sys.path.insert(0, sys.argv[1]); sys.path.insert(0, sys.argv[2])
import textpasses as T
from cvise.passes.abstract import PassResult, ProcessEventNotifier
name, arg, path = sys.argv[3], (None if sys.argv[4] == '-' else sys.argv[4]), Path(sys.argv[5])
p = T.make(name, arg)
st = p.new(str(path), None)
outs = []
for _ in range(int(sys.argv[6])):
    if st is None:
        break
    cd = Path(tempfile.mkdtemp(prefix='c-', dir=path.parent))
    cand = cd / path.name
    shutil.copy2(path, cand)
    res, st2 = p.transform(str(cand), copy.deepcopy(st), ProcessEventNotifier(None))
    outs.append([res.name, cand.read_text()])
    shutil.rmtree(cd, ignore_errors=True)
    if res in (PassResult.STOP, PassResult.ERROR):
        break
    st = p.advance(str(path), st)
print(json.dumps(outs))
'''


def fresh_process_probe(ctx, name, arg, text, d):
    """the same (content, cursor, configuration) in a process that has seen many other files and in a brand-new
    interpreter: class-level or module-level memory of earlier inputs shows up as a difference"""
    import subprocess
    import sys as _sys
    from vlib import REPO
    f = d / 'fresh' / 'a.c'
    f.parent.mkdir()
    steps = 3
    if name == 'peep':
        # peep's delimiters depend on the first and last character of the file: probe the rarer shape, through all rules
        text = (',' + text.lstrip(',') if ctx.rng.random() < 0.5 else text.rstrip(',\n') + ',')[:40]
        steps = 130
    f.write_text(text)
    (d / 'fresh.py').write_text(FRESH)
    r = subprocess.run([_sys.executable, str(d / 'fresh.py'), str(REPO), str(VERIF / 'tools'), name, arg if arg is not None else '-', str(f), str(steps)],
                       capture_output=True, text=True, timeout=60)
    if r.returncode != 0:
        return None
    want = [tuple(x) for x in json.loads(r.stdout.strip().split('\n')[-1])]
    p = make(name, arg)
    st = p.new(str(f), None)
    got = []
    for _ in range(steps):
        if st is None:
            break
        cd = Path(tempfile.mkdtemp(prefix='c-', dir=f.parent))
        cand = cd / f.name
        shutil.copy2(f, cand)
        res, st2 = p.transform(str(cand), copy.deepcopy(st), ProcessEventNotifier(None))
        got.append((res.name, cand.read_text()))
        shutil.rmtree(cd, ignore_errors=True)
        if res in (PassResult.STOP, PassResult.ERROR):
            break
        st = p.advance(str(f), st)
    ctx.notes['last_fresh_text'] = text
    ctx.notes.setdefault('fresh_probes', {}).setdefault(f'{name}::{arg}', 0)
    ctx.notes['fresh_probes'][f'{name}::{arg}'] += 1
    return None if got == want else f'candidates-depend-on-what-the-process-saw-before:{name}'


def reuse_probe(ctx):
    """producing candidates is a function of the file, the cursor and the configuration: a pass object that has been used
    before (on another file, through accepts and rejects, with a sanity check that failed) must hand out the same first
    cursor, the same reformatted file and the same first candidate as a fresh object of the same configuration"""
    from cvise.utils.error import InsaneTestCaseError

    def insane():
        raise InsaneTestCaseError(['a.c'], 'test')

    def first(p, text, d, tag):
        f = d / f'{tag}.c'
        f.write_text(text)
        st = p.new(str(f), lambda: None)
        after_new = f.read_text()
        if st is None:
            return ('none', after_new, None)
        res, st2 = p.transform(str(f), copy.deepcopy(st), ProcessEventNotifier(None))
        return (snapshot(st), after_new, (res.name, f.read_text()))

    texts = {'tool': ('int a;\nint b;\n#if X\nint c;\n#endif\nint f() { return 1; }\n', TOOL_TEXT)}
    todo = [(n, a) for n, a in TOOL_PASSES] + [('lines', '1'), ('lines', '10'), ('lines', 'None')] + list(T.PASSES)
    for name, arg in todo:
        d = Path(tempfile.mkdtemp(prefix='c11r-', dir=ctx.scratch))
        try:
            tA, tB = texts['tool'] if (name, arg) not in T.PASSES else (T.gen_text(name, arg, ctx.rng), T.gen_text(name, arg, ctx.rng))
            os.environ['CD_SCEN'] = str(d / 'cd.json')
            os.environ['CD_LOG'] = str(d / 'cd.log')
            (d / 'cd.json').write_text('{}')
            (d / 'cd.log').write_text('')
            used = make(name, arg)
            fa = d / 'used.c'
            fa.write_text(tA)
            for sanity in (insane, lambda: None):          # a first visit whose reformatted text fails the sanity check, then a normal one
                fa.write_text(tA)
                st = used.new(str(fa), sanity)
                for k in range(3):
                    if st is None:
                        break
                    keep = fa.read_text()
                    res, st2 = used.transform(str(fa), copy.deepcopy(st), ProcessEventNotifier(None))
                    if res != PassResult.OK:
                        break
                    if k == 1:                      # accepted: the candidate stays
                        st = used.advance_on_success(str(fa), st2)
                    else:                           # rejected: the file is what it was
                        fa.write_text(keep)
                        st = used.advance(str(fa), st)
            got = first(used, tB, d, 'b-used')
            want = first(make(name, arg), tB, d, 'b-fresh')
            ctx.count()
            if got != want:
                what = 'first cursor' if got[0] != want[0] else ('file after new()' if got[1] != want[1] else 'first candidate')
                ctx.report(f'candidates-depend-on-earlier-use-of-the-pass-object:{name}', f'{name}::{arg}: {what} for {tB[:40]!r} differs between a pass object used before (on {tA[:30]!r}, one visit with a failing sanity check) and a fresh one: {str(got[0])[:80]} vs {str(want[0])[:80]}',
                           {'kind': 'reuse', 'pass': name, 'arg': arg, 'hist': 'reuse-probe', 'textA': tA, 'textB': tB})
            else:
                ctx.nontrivial(('reuse', name, arg, tB))
        except Exception as e:  # noqa: BLE001
            ctx.notes.setdefault('exceptions', []).append(f'reuse {name}::{arg}: {type(e).__name__}: {e}'[:200])
        finally:
            shutil.rmtree(d, ignore_errors=True)


def cases(ctx):
    rng = ctx.rng
    quick = ctx.tier == 'quick'
    out = []
    for name, arg in T.PASSES:
        n = (8 if quick else 60) if name != 'peep' else (2 if quick else 8)
        for _ in range(n):
            text = T.gen_text(name, arg, rng)
            L = rng.randint(1, 5) if name != 'peep' else rng.randint(20, 120)
            out.append((name, arg, text, [rng.random() < 0.4 for _ in range(L)]))
    for name, arg in TOOL_PASSES:
        for _ in range(4 if quick else 30):
            out.append((name, arg, TOOL_TEXT, [rng.random() < 0.5 for _ in range(rng.randint(1, 6))]))
        if name == 'ifs':
            # accept exactly the clipped last chunk at chunk size 2 (the path through advance_on_success -> advance -> copy)
            out.append((name, arg, IFS5, [False] * 6 + [True, False, False]))
            out.append((name, arg, IFS4, [False] * 4 + [True, False, False]))
            for h in ([False, False, True, False, True, True], [True, False, False, False, False, True, False]):
                out.append((name, arg, IFS5, h))
            for _ in range(3 if quick else 30):
                out.append((name, arg, IFS5, [rng.random() < 0.4 for _ in range(rng.randint(4, 8))]))
        if name in ('ifs', 'unifdef'):
            for t in ILL_TEXTS:
                out.append((name, arg, t, [rng.random() < 0.5 for _ in range(rng.randint(1, 4))]))
        if name in ('ifs', 'unifdef', 'lines'):
            # the helper program itself fails (exit 2 / exit 1): nothing may be left behind either
            out.append((name, arg, TOOL_TEXT, [False, True, False], 2))
            out.append((name, arg, TOOL_TEXT, [True, False], 1))
    # IncludeIncludesPass: include files are looked up from the process's current directory (the check's scratch root);
    # openable and unopenable includes in every order
    for nm_, body in (('c11_first.h', 'int first;\n'), ('c11_local.h', 'int local;\n#define L 1\n')):
        (Path(ctx.scratch) / nm_).write_text(body)
    inc_texts = ["#include 'c11_first.h'\nint a;\n#include 'c11_missing.h'\n#include 'c11_local.h'\nint b;\n",
                 "#include 'c11_missing.h'\n#include 'c11_local.h'\nint b;\n", "int a;\n#include 'c11_missing.h'\n",
                 "#include 'c11_local.h'\n#include 'c11_first.h'\n#include <stdio.h>\n"]
    for t in inc_texts:
        for h in ([False] * 4, [True, False, False], [False, True, True], [True, True, True, True]):
            out.append(('includeincludes', None, t, h))
    return out


def run(ctx):
    import logging
    logging.getLogger().setLevel(logging.CRITICAL)
    if ctx.replay:
        o = json.load(open(ctx.replay))
        if o.get('kind') == 'raising-helper':
            raising_helper_probe(ctx)
            print('replayed ->', 'fails' if ctx.violations else 'holds')
            return 1 if ctx.violations else 0
        if o.get('kind') == 'reuse':
            reuse_probe(ctx)
            print('replayed ->', 'fails' if ctx.violations else 'holds')
            return 1 if ctx.violations else 0
        d = Path(tempfile.mkdtemp(prefix='c11-', dir=ctx.scratch))
        try:
            if o['hist'] == 'fresh-process-probe':
                sig = fresh_process_probe(ctx, o['pass'], o['arg'], o['text'], d)
            elif o['hist'] == 'sibling-probe':
                sig = sibling_probe(ctx, o['pass'], o['arg'], o['text'], d, o.get('other'))
            else:
                sig, _ = explore(ctx, o['pass'], o['arg'], o['text'], o['hist'], d, o.get('tool_fail'))
        except Exception as e:
            sig = f"pass-method-raises-on-a-reachable-cursor:{o['pass']}"
            print(type(e).__name__, e)
        print('replayed ->', sig or 'holds')
        if sig:
            ctx.report(sig, 'replayed', o)
        return 1 if ctx.violations else 0
    ctx.lean_gate(OBLIGATIONS)
    raising_helper_probe(ctx)
    reuse_probe(ctx)
    per = {}
    sib = None
    fresh_budget = [30 if ctx.tier == 'quick' else 300]
    for name, arg, text, hist, *tf in cases(ctx):
        tf = tf[0] if tf else None
        d = Path(tempfile.mkdtemp(prefix='c11-', dir=ctx.scratch))
        try:
            sig, steps = explore(ctx, name, arg, text, hist, d, tf)
        except Exception as e:
            sig, steps = f'explorer-exception:{name}:{type(e).__name__}', 0
            ctx.notes.setdefault('exceptions', []).append(f'{name}::{arg}: {e}'[:200])
        finally:
            shutil.rmtree(d, ignore_errors=True)
        if not sig and tf is None and (name, arg) in T.PASSES and ctx.rng.random() < 0.5:
            d2 = Path(tempfile.mkdtemp(prefix='c11s-', dir=ctx.scratch))
            try:
                sig = sibling_probe(ctx, name, arg, text, d2)
                hist = 'sibling-probe'
                sib = ctx.notes.get('last_sibling')
            except Exception as e:
                ctx.notes.setdefault('exceptions', []).append(f'sibling {name}::{arg}: {e}'[:200])
            finally:
                shutil.rmtree(d2, ignore_errors=True)
        if not sig and tf is None and (name, arg) in T.PASSES and ((fresh_budget[0] > 0 and ctx.rng.random() < 0.1) or (name, arg) == ('peep', 'b')):
            fresh_budget[0] -= 1
            d3 = Path(tempfile.mkdtemp(prefix='c11f-', dir=ctx.scratch))
            try:
                sig = fresh_process_probe(ctx, name, arg, text, d3)
                hist = 'fresh-process-probe'
                text = ctx.notes.get('last_fresh_text', text)
            except Exception as e:
                ctx.notes.setdefault('exceptions', []).append(f'fresh {name}::{arg}: {e}'[:200])
            finally:
                shutil.rmtree(d3, ignore_errors=True)
        ctx.count()
        per[f'{name}::{arg}'] = per.get(f'{name}::{arg}', 0) + steps
        if steps >= 2 or (tf and steps):
            ctx.nontrivial((name, arg, text, tuple(hist)))
        if sig and sig.startswith('explorer-exception'):
            # a pass method raised on a cursor reached through new / advance / advance_on_success: cursors are complete values
            ctx.report('pass-method-raises-on-a-reachable-cursor:' + name, f'{name}::{arg} on {text[:60]!r} history {hist}: {ctx.notes["exceptions"][-1]}',
                       {'kind': 'explore', 'pass': name, 'arg': arg, 'text': text, 'hist': hist, 'tool_fail': tf})
        elif sig:
            ctx.report(sig, f'{name}::{arg} on {text[:60]!r} history {hist}', {'kind': 'explore', 'pass': name, 'arg': arg, 'text': text, 'hist': hist, 'tool_fail': tf, 'other': sib if hist == 'sibling-probe' else None})
    ctx.sample({'pass': 'balanced::parens', 'steps_explored': per.get('balanced::parens')})
    ctx.sample({'tool passes explored with stand-ins': {f'{n}::{a}': per.get(f'{n}::{a}') for n, a in TOOL_PASSES}})
    conclude(ctx, [], None)
    ctx.assumptions += ['clause (c) (cursors survive being sent to a worker) is decided by pickle round trips in the explorer, not by a theorem',
                        'transform may record tool reports on the cursor it is given (ClangBinarySearchPass.parse_stderr): under the real pool that is the worker\'s private copy; the explorer hands it a copy as well']
    return ctx.finish(obligations=OBLIGATIONS,
                      rule='all passes and arguments (tool-free ones on planted inputs; ifs/lines/clang/clangbinarysearch/unifdef/indent with stand-in tools), cursors reached through accept/reject histories of depth <= 5 (long for peep): '
                           'deep snapshot of the cursor around advance and transform, pickle round trip of cursor and bound transform with equal results, two evaluations on equal copies, directory listing around transform. '
                           'non-trivial = history with >= 2 explored steps',
                      extra={'steps_by_pass': per, 'notes': ctx.notes})
