#!/usr/bin/env python3
"""Confirm a seeded change of the two-per-property round and run checks against it.
   seed2_eval.py [--scratch] <ID> <A|B> <check ids…>
Reads $SEED_ROOT/<ID>.out/ (default /tmp/seed2){patchX.diff,demoX.py,notes.md}; keeps them as /verif/seeded/<ID>-<X>/.
Default: applies the patch to /repo (which must be clean), runs demo, pinned tests and the checks, restores /repo.
--scratch: does the same in a private worktree under /tmp/s2w via CVISE_REPO (for parallel preliminary runs; /repo untouched).
Evidence of these runs goes to VERIF_EVIDENCE_DIR (never to /verif/evidence)."""
import json, os, shutil, subprocess, sys, time
from pathlib import Path
args = sys.argv[1:]
scratch = '--scratch' in args
args = [a for a in args if a != '--scratch']
ID, X, checks = args[0], args[1], args[2:]
root = os.environ.get('SEED_ROOT', '/tmp/seed2')          # round 3: /tmp/seed2 (kept as -A/-B); round 4: /tmp/seed3 (kept as -C/-D)
src = Path(f'{root}/{ID}.out')
name = f"{ID}-{ {'A': 'C', 'B': 'D'}[X] if root.endswith('seed3') else ({'A': 'E', 'B': 'F', 'H': 'H'}[X] if root.endswith('seed4') else ({'A': 'G', 'B': 'J'}[X] if root.endswith('seed5') else ({'A': 'K', 'B': 'L'}[X] if root.endswith('seed6') else ({'A': 'M', 'B': 'N'}[X] if root.endswith('seed8') else X))))}"
dst = Path('/verif/seeded') / name
dst.mkdir(parents=True, exist_ok=True)
shutil.copy(src / f'patch{X}.diff', dst / 'patch.diff')
if X == 'H':       # a harmless refactoring: both demonstrations of the same agent must still pass with it
    shutil.copy(src / 'demoA.py', dst / 'demoA.py')
    shutil.copy(src / 'demoB.py', dst / 'demoB.py')
else:
    shutil.copy(src / f'demo{X}.py', dst / 'demo.py')
if (src / 'notes.md').exists():
    shutil.copy(src / 'notes.md', dst / 'notes.md')
os.environ.setdefault('VERIF_EVIDENCE_DIR', f'/tmp/x/ev/s2/{name}')


def sh(cmd, t=900, **kw):
    try:
        r = subprocess.run(cmd, shell=True, capture_output=True, text=True, timeout=t, **kw)
        return r.returncode, (r.stdout + r.stderr)
    except subprocess.TimeoutExpired:
        return 'timeout', ''


meta = {'id': name, 'breaks_property': ID, 'ran': [], 'mode': 'scratch worktree via CVISE_REPO' if scratch else 'patch applied to /repo and undone'}
if scratch:
    tree = f'/tmp/s2w/{name}'
    sh(f'git -C /repo worktree remove --force {tree}')
    rc, out = sh(f'mkdir -p /tmp/s2w && git -C /repo worktree add --detach {tree} HEAD -q')
    assert rc == 0, out
else:
    tree = '/repo'
    assert sh('git -C /repo status --short')[1].strip() == '', '/repo not clean'
try:
    if X == 'H':
        meta['harmless'] = True
        rc, out = sh(f'git -C {tree} apply {dst}/patch.diff')
        assert rc == 0, 'patch does not apply: ' + out
        meta['demos_on_changed'] = [sh(f'timeout 300 /venv/bin/python {dst}/demo{q}.py {tree}', 320)[0] for q in 'AB']
    else:
        rc0, out0 = sh(f'timeout 300 /venv/bin/python {dst}/demo.py {tree}', 320)
        meta['demo_on_unchanged'] = rc0
        rc, out = sh(f'git -C {tree} apply {dst}/patch.diff')
        assert rc == 0, 'patch does not apply: ' + out
        rc1, out1 = sh(f'timeout 300 /venv/bin/python {dst}/demo.py {tree}', 320)
        meta['demo_on_changed'] = rc1
        meta['demo_says'] = out1.strip()[-400:]
    rct, outt = sh(f'cd {tree} && timeout 600 /venv/bin/python -m pytest -q -p no:cacheprovider --timeout=900 --continue-on-collection-errors 2>&1 | tail -1', 700)
    meta['pinned_tests_with_change'] = outt.strip()
    res = {}
    env = dict(os.environ)
    if scratch:
        env['CVISE_REPO'] = tree
    for c in checks:
        t = time.time()
        rcc, outc = sh(f"cd {os.environ.get('VERIF_ROOT', '/verif')} && timeout 1700 ./check {c} --tier quick", 1800, env=env)
        lines = [l for l in outc.split('\n') if l.startswith(('VIOLATION', '# ', 'TOOL'))]
        res[c] = {'exit': rcc, 'seconds': round(time.time() - t, 1), 'lines': [l[:300] for l in lines[:6]]}
        meta['ran'].append(f'./check {c} --tier quick')
    meta['checks'] = res
finally:
    if scratch:
        sh(f'git -C /repo worktree remove --force {tree}')
    else:
        sh('git -C /repo checkout -- . && git -C /repo clean -fdq')
meta['caught_by'] = [c for c, r in meta.get('checks', {}).items() if r['exit'] == 1]
meta['concrete'] = [c for c, r in meta.get('checks', {}).items() if r['exit'] == 1 and not any('no-failing-input-found' in l for l in r['lines'])]
old = {}
if (dst / 'meta.json').exists():
    try:
        old = json.load(open(dst / 'meta.json'))
    except Exception:
        old = {}
meta['needs_to_manifest'] = old.get('needs_to_manifest', '')
if scratch and old.get('mode', '').startswith('patch applied'):
    meta['official'] = {k: old.get(k) for k in ('checks', 'caught_by', 'concrete')}
json.dump(meta, open(dst / 'meta.json', 'w'), indent=1)
print(name, json.dumps({k: meta.get(k) for k in ('demo_on_unchanged', 'demo_on_changed', 'demos_on_changed', 'pinned_tests_with_change', 'caught_by', 'concrete')}))
for c, r in meta.get('checks', {}).items():
    print(' ', c, r['exit'], r['seconds'], *r['lines'][:3], sep='\n    ')
