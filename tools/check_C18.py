"""C18 — the clex helper never crashes and edits tokens as specified."""
import itertools
import json
import os
import re
import shutil
import subprocess
import tempfile
from concurrent.futures import ThreadPoolExecutor
from pathlib import Path

from vlib import conclude, enc_text, REPO, ToolTrouble
import minilex

OBLIGATIONS = ['Cvise.C18.exit_codes', 'Cvise.C18.define_in_bounds', 'Cvise.C18.rmToks_output_sublist', 'Cvise.C18.rmToks_prefix',
               'Cvise.C18.print_spec', 'Cvise.C18.shipped_define_bounded', 'Cvise.C18.old_define_reads_out_of_bounds',
               'Cvise.C18.rmTokPattern_output_sublist', 'Cvise.C18.rmTokPattern_prefix', 'Cvise.C18.deleteString_spec', 'Cvise.C18.shortenString_spec',
               'Cvise.C18.xString_length', 'Cvise.C18.ok_indices_are_a_prefix', 'Cvise.C18.rename_spec']

MODES = ['rename-toks', 'delete-string', 'define', 'rm-tok-pattern-4', 'rm-toks-1', 'rm-toks-2', 'rm-toks-3', 'rm-toks-7', 'print', 'shorten-string', 'x-string']
SHIPPED_EXTRA = ['rm-tok-pattern-8', 'rm-toks-16', 'rm-toks-32']
ALPHA = ['#', 'define', 'X', 'y', '1', '"s"', '""', "'c'", '/* c */', '\\\n', ' ', '\n', '(', ')', ';', 'int']


def build(ctx):
    d = Path(tempfile.mkdtemp(prefix='clex-', dir=ctx.scratch))
    # the scanner: clex.l's rules compiled to a POSIX-regex matcher that runs the verbatim rule actions (block-comment
    # skipping included); if clex.l has a shape the generator does not know, fall back to replaying the Python lexer's tokens
    try:
        (d / 'yylex.c').write_text(minilex.gen_scanner_c(REPO / 'clex' / 'clex.l'))
        ctx.scanner = 'generated-from-clex.l'
    except Exception as e:  # noqa
        (d / 'yylex.c').write_text(minilex.YYLEX_C)
        ctx.scanner = f'token-replay ({type(e).__name__})'
    exe = d / 'clex'
    cmd = ['gcc', '-g', '-O1', '-fsanitize=address,undefined', '-fno-omit-frame-pointer', '-I', str(REPO / 'clex'), '-o', str(exe),
           str(REPO / 'clex' / 'driver.c'), str(d / 'yylex.c')]
    r = subprocess.run(cmd, capture_output=True, text=True)
    if r.returncode != 0:
        raise ToolTrouble('cannot compile clex/driver.c: ' + r.stderr[-800:])
    return d, exe


def run_clex(exe, d, mode, idx, text, lexer, tag):
    toks, status = lexer.tokenize(text)
    tf = d / f'tok.{tag}'
    src = d / f'in.{tag}.c'
    minilex.write_token_file(tf, toks, status)
    src.write_bytes(text.encode('latin-1'))
    env = dict(os.environ, CLEX_TOKENS=str(tf), ASAN_OPTIONS='detect_leaks=0:abort_on_error=0:exitcode=99', UBSAN_OPTIONS='halt_on_error=1:exitcode=98')
    try:
        r = subprocess.run([str(exe), mode, str(idx), str(src)], capture_output=True, env=env, timeout=20)
        code, out, err = r.returncode, r.stdout.decode('latin-1'), r.stderr.decode('latin-1', 'replace')
    except subprocess.TimeoutExpired:
        code, out, err = 'timeout', '', ''
    return toks, status, code, out, err


def print_oracle(text):
    """printing all tokens of a text without quotes, backslashes and block comments gives the text back"""
    return text if not any(x in text for x in ('"', "'", '\\', '/*')) else None


BIG = 3000      # beyond this size an input is only run (sanitizers, exit status, print oracle): the independent Python lexer
                # tries every end position for every rule and is quadratic


def run_clex_raw(exe, d, mode, idx, text, tag):
    src = d / f'in.{tag}.c'
    src.write_bytes(text.encode('latin-1'))
    env = dict(os.environ, ASAN_OPTIONS='detect_leaks=0:abort_on_error=0:exitcode=99', UBSAN_OPTIONS='halt_on_error=1:exitcode=98')
    env.pop('CLEX_TOKENS', None)
    try:
        r = subprocess.run([str(exe), mode, str(idx), str(src)], capture_output=True, env=env, timeout=900)
        code, out, err = r.returncode, r.stdout.decode('latin-1'), r.stderr.decode('latin-1', 'replace')
    except subprocess.TimeoutExpired:
        code, out, err = 'timeout', '', ''
    return None, 'BIG', code, out, err


def classify(code, err):
    if code in (51, 71):
        return str(code)
    return 'crash'


def tok_line(mode, idx, toks):
    body = ';'.join(f'{minilex.kind_num(k)}:{enc_text(t)}' for k, t in toks) or '-'
    return f'clex {mode} {idx} {body}'


# ------------------------------------------------------------------ token-level specs (model independent)
def nonblank(toks):
    return [t for k, t in toks if k not in ('TOK_WS', 'TOK_NEWLINE')]


def spec(mode, idx, text, toks, status, code, out, lexer):
    if status == 'STOP':
        return None if code == 71 and out == '' else 'unterminated-comment-not-STOP'
    if code not in (51, 71):
        return 'exit-code-outside-protocol'
    if mode == 'print':
        want = ''.join(t for _, t in toks)
        if not (code == 51 and out == want):
            return 'print-output-differs-from-tokens'
        # independent of any lexer: on a text without quotes and backslashes, printing all tokens gives back the text minus
        # its block comments — every other byte (carriage returns, form feeds, bytes outside ASCII) comes out as it went in
        if not any(ch in text for ch in '"\'\\'):
            exp, i = [], 0
            while i < len(text):
                if text.startswith('/*', i):
                    j = text.find('*/', i + 2)
                    i = j + 2
                    continue
                exp.append(text[i])
                i += 1
            if out != ''.join(exp):
                return 'print-output-is-not-the-input-minus-comments'
        return None
    if code != 51:
        return None
    otoks, ost = lexer.tokenize(out)
    if mode.startswith('rm-toks-'):
        n = int(mode[8:])
        nb = nonblank(toks)
        if idx >= len(nb):
            return 'OK-beyond-last-token'
        want = nb[:idx] + nb[idx + n:]
        # compare on the token strings of the *input* tokens that were printed: output is a sublist of the input token sequence
        printed = out
        seq = [t for _, t in toks]
        # reconstruct: remove blanks only between first removed token and next kept one
        if nonblank_concat(printed, toks, idx, n) is False:
            return 'rm-toks-removed-the-wrong-tokens'
        return None
    if mode.startswith('rm-tok-pattern-'):
        # output must be a sublist (by tokens) of the input, differing only inside the window of n non-blank tokens
        n = int(mode[15:])
        if not token_sublist(out, toks):
            return 'rm-tok-pattern-output-not-a-token-sublist'
        # the documented edit, read independently of the C loop: index = window position * 2^(n-1) + pattern number; the
        # window covers n consecutive non-blank tokens from that position; token j of the window is removed iff bit j of
        # (1 + 2 * pattern number) is set; blanks are always kept
        npat = 1 << (n - 1)
        pos, pat = idx // npat, 1 + 2 * (idx % npat)
        nb_seen = 0
        want = []
        for k, t in toks:
            if k in ('TOK_WS', 'TOK_NEWLINE'):
                want.append(t)
                continue
            j = nb_seen - pos
            nb_seen += 1
            if 0 <= j < n and (pat >> j) & 1:
                continue
            want.append(t)
        if pos >= nb_seen:
            return 'OK-beyond-last-token'
        return None if out == ''.join(want) else 'rm-tok-pattern-removed-the-wrong-tokens'
    if mode == 'delete-string':
        strs = [i for i, (k, t) in enumerate(toks) if k == 'TOK_STRING' and t != '""']
        if idx >= len(strs):
            return 'OK-beyond-last-string'
        want = ''.join('""' if i == strs[idx] else t for i, (k, t) in enumerate(toks))
        return None if out == want else 'delete-string-output-wrong'
    return None


def nonblank_concat(printed, toks, idx, n):
    """expected output of rm_toks by an independent reading: drop non-blank tokens idx..idx+n-1 and every blank after the
    first dropped one up to (not including) the blank run that precedes the next kept token … as the C loop does: a token
    is printed iff nothing has started yet or more than idx+n non-blank tokens have been seen"""
    out = []
    which = 0
    started = False
    for k, t in toks:
        if k not in ('TOK_WS', 'TOK_NEWLINE'):
            if which == idx:
                started = True
            which += 1
        if (not started) or which > idx + n:
            out.append(t)
    return ''.join(out) == printed


def token_sublist(out, toks):
    """is `out` the concatenation of some subsequence of the input tokens?  (exact search, not greedy: 'define' is a
    prefix of 'defineint')"""
    strs = [t for _, t in toks]
    reach = {0}
    for t in strs:
        new = set(reach)
        for p in reach:
            if out.startswith(t, p):
                new.add(p + len(t))
        reach = new
    return len(out) in reach


# ------------------------------------------------------------------ inputs
def gen_texts(ctx):
    rng = ctx.rng
    quick = ctx.tier == 'quick'
    texts = ['#', 'X\n#define X 1', '#define', '# define', '#define A', '#define A 1\nA A\n', 'int x = "a\\"b"; /* c */ y\\\n z', '/* open', '', '"" "abc" \'c\'',
             '#define X y\nX X\n#define Z\n', 'a b c d e f g h i j', '# \t', 'x #', '#\n', '# define X', 'X # define X',
             # block comments whose terminator follows a run of stars (even and odd), empty comments, stars inside
             'a /** doc **/ b', 'a /***/ b', 'a /**/ b', 'a /* x **/ b /* y */ c', 'a /*** x ***/ b', 'a /* * / */ b', 'a /* x *', 'a /**', 'a /*/ b */ c',
             'a(b, c); d e f g h', 'f(a, b, c, d, e, f, g, h, i, j);',
             # macros whose body names the macro itself, followed by other used macros (every used macro occupies an index)
             '#define X X+1\n#define Y 2\nX Y\n', '#define next next->next\n#define A 1\nnext A\n', '#define A 1\n#define X X\nA X A\n#define B 2\nB\n',
             '#define P P\nP\n#define Q 3\nQ Q\n',
             # carriage returns, form feeds, vertical tabs and bytes outside ASCII outside of literals
             'a\r\nb\r\n', 'x\ry', 'int a;\r\n/* c */\r\nint b;\r', 'a\fb\vc', 'caf\xe9 = 1;\r\n', '\r', 'a \r b']
    # definitions nobody uses in front of used ones (only used macros occupy an index), in every order
    texts += ['#define A 1\n#define B 2\nB\n', '#define U\n#define V 3\nV V\n#define W 4\n', '#define A 1\n#define B 2\n#define C 3\nC\n',
              '#define A 1\nA\n#define B 2\n#define C 3\nC C\n', '#define A B\n#define B 1\nx\n', '#define A 1\n#define B 2\nA\n']
    # several kilobytes of token text with every alignment of the token ends (storage carved from blocks, buffers that are
    # grown by doubling): token lengths 1 … 7 cycling, shifted by 0 … 7 one-character tokens in front
    for off in range(8):
        body = ';' * off + ''.join(('t' * (1 + (j * 3 + off) % 7)) + ('=' if j % 2 else ' ') for j in range(1500 if quick else 6000))
        texts.append(body + '\n')
    # sizes that cross the growth steps of the helper's tables (token list, identifier index): many distinct identifiers,
    # many tokens, long tokens
    for k in (8, 9, 10, 16, 17, 18, 31, 33, 64, 65, 129, 300):
        texts.append(' '.join(f'name{j}' for j in range(k)) + ';\n')
    texts.append('#define M0 1\n' + ' '.join(f'M{j % 5}' for j in range(70)) + '\n')
    texts.append('"' + 's' * 300 + '" ' + 'x' * 400 + ' /* ' + 'c' * 300 + ' */ 12345678901234567890\n')
    texts.append('(' * 40 + ')' * 40 + ';' * 40)
    L = 3 if quick else 4
    for tup in itertools.product(ALPHA, repeat=L):
        s = ''.join(tup)
        if rng.random() < (0.02 if quick else 0.05) or ('#' in tup and 'define' in tup and rng.random() < 0.3):
            texts.append(s)
    for _ in range(40 if quick else 600):
        texts.append(''.join(rng.choice(ALPHA + ['x', ' ', ' ', 'A', '=', 'A']) for _ in range(rng.randint(1, 14))))
    for _ in range(10 if quick else 100):
        texts.append(''.join(chr(rng.randint(1, 255)) for _ in range(rng.randint(1, 10))))
    return texts


def run(ctx):
    lexer = minilex.Lexer(REPO / 'clex' / 'clex.l')
    d, exe = build(ctx)
    if ctx.replay:
        o = json.load(open(ctx.replay))
        toks, status, code, out, err = run_clex(exe, d, o['mode'], o['idx'], o['text'], lexer, 'r')
        sig = 'sanitizer-report-or-crash' if classify(code, err) == 'crash' else spec(o['mode'], o['idx'], o['text'], toks, status, code, out, lexer)
        print(o['mode'], o['idx'], repr(o['text']), '->', code, repr(out[:80]), sig or 'holds', err[:300])
        if sig:
            ctx.report(sig + ':' + o['mode'].rstrip('0123456789-'), 'replayed', o)
        return 1 if ctx.violations else 0
    ctx.lean_gate(OBLIGATIONS)
    diffs = []
    texts = gen_texts(ctx)
    jobs = []
    modes = MODES + (SHIPPED_EXTRA if ctx.tier != 'quick' else ['rm-toks-16', 'rm-tok-pattern-8'])
    for ti, text in enumerate(texts):
        ms = modes if ti < 40 or ctx.tier != 'quick' else ctx.rng.sample(modes, 4)
        if ctx.tier == 'quick' and len(text) > 60:
            ms = ['rename-toks', 'define', 'rm-toks-16', 'print', 'shorten-string']      # the table-growth inputs: modes that build tables
        if len(text) > 3000:
            ms = ['print', 'rm-toks-16', 'define']                                       # the big inputs: a few probes each
        for mode in ms:
            jobs.append((ti, text, mode))

    def work(job):
        ti, text, mode = job
        res = []
        stops = 0
        idx = 0
        while stops < 3 and idx < (40 if len(text) <= BIG else 3):
            if len(text) > BIG and getattr(ctx, 'scanner', '').startswith('generated'):
                toks, status, code, out, err = run_clex_raw(exe, d, mode, idx, text, f'{ti}.{mode}.{idx}')
            else:
                toks, status, code, out, err = run_clex(exe, d, mode, idx, text, lexer, f'{ti}.{mode}.{idx}')
            res.append((idx, toks, status, code, out, err))
            if code != 51:
                stops += 1
            idx += 1
        return job, res
    lines, reals, meta = [], [], []
    prefix_viol = {}
    with ThreadPoolExecutor(max_workers=12) as ex:
        for (ti, text, mode), res in ex.map(work, jobs):
            seen_stop = False
            for idx, toks, status, code, out, err in res:
                ctx.count()
                scen = {'kind': 'clex', 'mode': mode, 'idx': idx, 'text': text}
                cls = classify(code, err)
                fam = mode.rstrip('0123456789').rstrip('-')
                if cls == 'crash':
                    ctx.report('sanitizer-report-or-crash:' + fam, f'clex {mode} {idx} on {text!r}: exit {code}: {err.strip().splitlines()[1][:160] if len(err.strip().splitlines()) > 1 else err[:160]}', scen)
                elif status == 'BIG':
                    # judged without the Python lexer: print mode against the lexer-independent oracle, prefix property
                    if mode == 'print' and code == 51 and print_oracle(text) is not None and out != print_oracle(text):
                        ctx.report('print-output-is-not-the-input-minus-comments:print', f'clex print on a {len(text)}-character input', scen)
                    if code == 51 and seen_stop:
                        ctx.report('OK-after-STOP:' + fam, f'clex {mode}: index {idx} produces output after a smaller index reported STOP on a {len(text)}-character input', scen)
                    if code == 71:
                        seen_stop = True
                else:
                    sig = spec(mode, idx, text, toks, status, code, out, lexer)
                    if sig:
                        ctx.report(sig + ':' + fam, f'clex {mode} {idx} on {text!r} -> {code} {out!r}', scen)
                    if code == 51 and seen_stop:
                        ctx.report('OK-after-STOP:' + fam, f'clex {mode}: index {idx} produces output after a smaller index reported STOP on {text!r}', scen)
                    if code == 71:
                        seen_stop = True
                    if code == 51 and out != text:
                        ctx.nontrivial((mode, idx, text))
                if status == 'OK':
                    lines.append(tok_line(mode, idx, toks))
                    reals.append(f'{cls} {enc_text(out) if cls == "51" or mode == "rm-toks-1" and False else (enc_text(out) if cls == "51" else "*")}')
                    meta.append(scen)
    # the Python side: ClexPass.transform installs exactly what the helper printed on 51 (also when that is nothing), leaves
    # the file alone on 71
    import realcode  # noqa: F401
    from cvise.passes.clex import ClexPass
    from cvise.passes.abstract import ProcessEventNotifier
    for ti, text in enumerate(['x', 'x\n', 'x;', 'a b c', '"s" y', '#define A 1\nA A\n', 'int f(){}']):
        for mode in ('rm-toks-1', 'rm-toks-2', 'rm-toks-3', 'rm-tok-pattern-4', 'rename-toks', 'delete-string'):
            for idx in range(4):
                toks, status, code, out, err = run_clex(exe, d, mode, idx, text, lexer, f'p{ti}.{mode}.{idx}')
                src = d / f'py.{ti}.c'
                src.write_bytes(text.encode('latin-1'))
                tf = d / f'tok.py{ti}'
                minilex.write_token_file(tf, toks, status)
                os.environ['CLEX_TOKENS'] = str(tf)
                os.environ['ASAN_OPTIONS'] = 'detect_leaks=0:abort_on_error=0:exitcode=99'
                res, _ = ClexPass(mode, {'clex': str(exe)}).transform(str(src), idx, ProcessEventNotifier(None))
                ctx.count()
                now = src.read_bytes().decode('latin-1')
                want = ('OK', out) if code == 51 else (('STOP', text) if code == 71 else None)
                if want and (res.name, now) != want:
                    ctx.report('driver-misreads-helper:' + mode.rstrip('0123456789-'), f'clex {mode} {idx} on {text!r}: exit {code}, output {out!r}; ClexPass returned {res.name} and the file holds {now!r}',
                               {'kind': 'clexpass', 'mode': mode, 'idx': idx, 'text': text})
    os.environ.pop('CLEX_TOKENS', None)
    outs = ctx.model(lines)
    for sc, r, m in zip(meta, reals, outs):
        mm = m.split(' ')
        m_norm = f'{mm[0]} {mm[1] if mm[0] == "51" else "*"}'
        if r != m_norm:
            diffs.append({**sc, 'real': r[:200], 'model': m_norm[:200]})
    ctx.sample({'mode': meta[5]['mode'], 'idx': meta[5]['idx'], 'text': meta[5]['text'], 'observed': reals[5][:120]})
    conclude(ctx, diffs, None)
    shutil.rmtree(d, ignore_errors=True)
    ctx.assumptions += ['flex is not installed: the C side runs driver.c from the tree with a scanner generated from clex.l by tools/minilex.py (POSIX-regex matcher, longest match, earliest rule, the rule actions copied verbatim - so the block-comment action is the real code); scanner used in this run: ' + getattr(ctx, 'scanner', '?') + '. The Lean model and the token-level specs get their tokens from the independent Python lexer of the same rules (minilex.Lexer); compiled with gcc -fsanitize=address,undefined',
                        'memory safety beyond what ASan/UBSan report on the explored inputs is not claimed']
    return ctx.finish(obligations=OBLIGATIONS,
                      rule='driver.c from the working tree under ASan+UBSan; corpus + sampled exhaustive token sequences over {# define id num "s" "" \'c\' /* */ \\\\nl ws nl ( ) ; int} + random C-like and random byte texts; '
                           'every mode incl. all shipped families, indices from 0 to three STOPs; exit status in {51,71}, no sanitizer report, token-level specs, prefix property, and output compared with the Lean model. '
                           'non-trivial = OK run whose output differs from the input',
                      extra={'texts': len(texts), 'modes': modes})
